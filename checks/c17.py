"""C17 — Safeguarded scalar root finder honours its bracket contract, is differentiable.

Instruments (DESIGN.md 2.1):
 (A) RootFind.tla (mechanism of ScalarRootFind.rtsafe_ in exact lattice arithmetic, environment = the
     function revealed on demand) is model-checked exhaustively; its invariants are the clauses of
     RootContract.tla plus the mechanism invariants.
 (B) RootFindGen.tla behaviours (TLC simulation) are installed as host-side tables (jax.pure_callback +
     custom_jvp) and the REAL rtsafe_ runs against them with dyadic concretisation; the recorded evaluation
     sequence is compared step by step with the spec inside TLC (drift_* clauses) and the returned value is
     judged by the contract clauses.
 (C) find_root on genuine smooth families (jit, vmap batches, eager single calls, three tolerance settings,
     default and ample iteration budget); every evaluation of f is recorded by a jax.debug.callback placed in
     the user function; the trace (dense ranks + signs + comparison booleans) is judged by RootFindTrace.tla.
     Derivatives through find_root (jacfwd and grad) are compared with the implicit-function value.

Contract clauses (VIOLATION): bracketed_in_bracket, bracketed_meets_tol, endpoint_root_returned,
no_sign_change_nan, ift_derivative.  Everything named drift_* is mechanism drift only.
"""
import json
import math
import os
import random
import sys

import numpy as onp

from harness import common, tlc, trace

PID = "C17"
EPS = 2.0 ** -52
SETTINGS = [(1e-13, 0.0), (0.0, 1e-10), (1e-6, 1e-6)]      # (x_tol, r_tol) of the design
DERIV_RTOL = 1e-9
NANPOS, OFFTABLE = -1, -2


def ev_rec(op, x=0, s=0, F=0, DF=0, conv=False, it=0, stepLt=False, resLt=False, stag=False, exact=False, cmp=""):
    return dict(op=op, x=int(x), s=int(s), F=int(F), DF=int(DF), conv=bool(conv), it=int(it),
                stepLt=bool(stepLt), resLt=bool(resLt), stag=bool(stag), exact=bool(exact), cmp=cmp)


def sign(y):
    if y != y:
        return 2
    return -1 if y < 0 else (1 if y > 0 else 0)


def tol_flags(xs, ys, xret, x_tol, r_tol, f_indep=None):
    """alpha for 'meets the requested tolerance': booleans from the recorded evaluations.
    stepLt: last change of x  <  x_tol + 4 eps max|x|  (rounding allowance for x + dx evaluated in floating point)
    resLt : |f(x_ret)| < r_tol (the value f itself produced at the returned point)
    stag  : the last step did not move x at all
    exact : f(x_ret) == 0."""
    if xret != xret:
        return False, False, False, False
    if len(xs) >= 3 and xs[-1] == xret:
        yn = ys[-1]
    else:                                   # the returned point is not the last one evaluated
        yn = f_indep(xret) if f_indep else float("nan")
    resLt, exact = bool(abs(yn) < r_tol), bool(yn == 0.0)
    if len(xs) < 4:
        return False, resLt, False, exact
    xp = xs[-2] if xs[-1] == xret else xs[-1]
    d = abs(xret - xp)
    allow = 4.0 * EPS * max(abs(xret), abs(xp))
    return bool(d < x_tol + allow), resLt, bool(d == 0.0), exact


# ============================================================================ (B) scripted environment
class ScriptRunner:
    """The real rtsafe_ against a host-side table (value, slope) keyed by abscissa."""

    def __init__(self):
        import jax
        import jax.numpy as jnp
        from optimism import ScalarRootFind as S
        self.jax = jax
        self.tab, self.log = {}, []
        shape = jax.ShapeDtypeStruct((), jnp.float64)

        def host_f(x):
            x = float(x)
            self.log.append(x)
            v = self.tab.get(x)
            return onp.float64(v[0] if v is not None else onp.nan)

        def host_df(x):
            v = self.tab.get(float(x))
            return onp.float64(v[1] if v is not None else onp.nan)

        @jax.custom_jvp
        def fs(x):
            return jax.pure_callback(host_f, shape, x)

        @fs.defjvp
        def fs_jvp(primals, tangents):
            (x,), (t,) = primals, tangents
            return fs(x), jax.pure_callback(host_df, shape, x) * t

        def run(g, lo, hi, maxit, xtol, rtol):
            x, info = S.rtsafe_(fs, g, jnp.array([lo, hi]), S.Settings(maxit, xtol, rtol))
            return x, info.converged, info.iterations

        self.run = jax.jit(run)

    def __call__(self, tab, g, lo, hi, maxit, xtol, rtol):
        self.tab, self.log = tab, []
        out = self.run(float(g), float(lo), float(hi), int(maxit), float(xtol), float(rtol))
        out = self.jax.block_until_ready(out)
        return float(out[0]), bool(out[1]), int(out[2]), list(self.log)


def consistent(beh):
    """the revealed values must define a function (same abscissa -> same value and slope)"""
    c = beh["call"]
    seen = {c["b0"]: (c["fl"], None), c["b1"]: (c["fh"], None)}
    for e in beh["evals"]:
        if e["x"] < 0:
            continue
        v = seen.get(e["x"])
        if v is not None and (v[0] != e["F"] or (v[1] is not None and v[1] != e["DF"])):
            return False
        seen[e["x"]] = (e["F"], e["DF"])
    return True


def script_case(beh, rng):
    """seeded dyadic concretisation of one TLC behaviour"""
    return dict(kind="script", beh=beh, eh=rng.randrange(-6, 4), ec=rng.randrange(-5, 6), off=rng.randrange(-40, 41))


def run_script(case, runner, tid):
    beh = case["beh"]
    c = beh["call"]
    h, cc, off = 2.0 ** case["eh"], 2.0 ** case["ec"], case["off"]
    X = lambda p: h * (off + p)
    tab = {X(c["b0"]): (cc * c["fl"], 0.0), X(c["b1"]): (cc * c["fh"], 0.0)}
    itab = {X(c["b0"]): (c["fl"], 0), X(c["b1"]): (c["fh"], 0)}
    for e in beh["evals"]:
        if e["x"] >= 0:
            tab[X(e["x"])] = (cc * e["F"], (cc / h) * e["DF"])
            itab[X(e["x"])] = (e["F"], e["DF"])
    x_tol, r_tol = c["T"] * h, c["R"] * cc
    xret, conv, it, log = runner(tab, X(c["guess"]), X(c["b0"]), X(c["b1"]), c["maxit"], x_tol, r_tol)

    def pos(x):
        if x != x:
            return NANPOS
        q = x / h - off
        return int(q) if (q == int(q) and 0 <= q <= 4096 and x in itab) else OFFTABLE
    ys = [tab.get(x, (float("nan"),))[0] for x in log]
    evs = []
    for x, y in zip(log, ys):
        Fi, DFi = itab.get(x, (0, 0))
        evs.append(ev_rec("E", x=pos(x), s=sign(y), F=Fi, DF=DFi))
    stepLt, resLt, stag, exact = tol_flags(log, ys, xret, x_tol, r_tol)
    evs.append(ev_rec("R", x=pos(xret), conv=conv, it=it, stepLt=stepLt, resLt=resLt, stag=stag, exact=exact))
    tr = dict(id=tid, mode="script", lo=c["b0"], hi=c["b1"], g=c["guess"], T=c["T"], R=c["R"], maxit=c["maxit"], ev=evs)
    feats = dict(sign_change=c["fl"] * c["fh"] < 0,
                 zero_slope_root_hit=any(e["a"] == "ZeroSlope" for e in beh["evals"]),
                 iteration_cap_hit=(not conv and it == c["maxit"] and all(x == x for x in log)),
                 path="".join({"Init": "I", "Bisect": "B", "Newton": "N", "ZeroSlope": "Z", "NaNStep": "n"}[e["a"]]
                              for e in beh["evals"]))
    return tr, feats


# ============================================================================ (C) genuine families
def families():
    import jax.numpy as jnp
    relu = lambda z: jnp.maximum(z, 0.0)
    return {
        # p = [s, ., ., .]  (s = orientation * scale)
        "poly3":   lambda x, p: p[0] * (x - p[1]) * (x - p[2]) * (x - p[3]),
        "power":   lambda x, p: p[0] * (x ** p[1] - p[2]),
        "tanh":    lambda x, p: p[0] * (jnp.tanh(p[1] * (x - p[2])) + p[3]),
        "sinlin":  lambda x, p: p[0] * (jnp.sin(p[1] * x) + p[2] * x - p[3]),
        "cube":    lambda x, p: p[0] * ((x - p[1]) ** 3 + p[2] * (x - p[1])),
        "plateau": lambda x, p: p[0] * (relu(x - p[1] - p[2]) ** 2 - relu(p[1] - p[2] - x) ** 2),
        "exp":     lambda x, p: p[0] * (jnp.exp(p[1] * x) - p[2]),
        "lin":     lambda x, p: p[0] * x - p[1] + 0.0 * (p[2] + p[3]),
        "rq":      lambda x, p: p[0] * (x - p[1]) * (x * x + p[2]),
    }


FAMILY_ORDER = ["poly3", "power", "tanh", "sinlin", "cube", "plateau", "exp", "lin", "rq"]


def sample_case(fam, rng):
    """seeded inputs: parameter vector, bracket, exact root if known, feature flags"""
    s = rng.choice([1.0, -1.0]) * (10.0 ** rng.uniform(-3, 3) if rng.random() < 0.4 else 1.0)
    flat_root, root, scen = False, None, "generic"
    if fam == "poly3":
        scen = rng.choice(["one_in", "one_in", "three_in", "two_in", "none_in", "left_end", "right_end",
                           "both_ends", "end_and_inner"])
        b0 = rng.uniform(-5, 5)
        b1 = b0 + 10.0 ** rng.uniform(-1, 1.5)
        w = b1 - b0
        inside = lambda: b0 + w * rng.uniform(0.05, 0.95)
        far = lambda: rng.uniform(0.02, 0.3) if rng.random() < 0.5 else rng.uniform(0.3, 3)    # other roots close to / far from the bracket
        outside = lambda: (b1 + w * far()) if rng.random() < 0.5 else (b0 - w * far())
        r = {"one_in": [inside(), outside(), outside()], "three_in": [inside(), inside(), inside()],
             "two_in": [inside(), inside(), outside()], "none_in": [outside(), outside(), outside()],
             "left_end": [b0, outside(), outside()], "right_end": [b1, outside(), outside()],
             "both_ends": [b0, b1, outside()], "end_and_inner": [rng.choice([b0, b1]), inside(), outside()]}[scen]
        if scen == "one_in":
            root = r[0]
        rng.shuffle(r)
        p = [s] + r
    elif fam == "power":
        q = rng.choice([0.3, 0.5, 1.5, 2.0, 3.0, 5.0, 9.0])
        a = 10.0 ** rng.uniform(-2, 3)
        root = a ** (1.0 / q)
        scen = rng.choice(["in", "in", "in", "tiny_left", "above"])
        b0 = root * rng.uniform(0.01, 0.9)
        if scen == "tiny_left":
            b0 = 10.0 ** rng.uniform(-16, -6)
        b1 = root * rng.uniform(1.1, 50)
        if scen == "above":
            b0, b1, root = root * rng.uniform(1.05, 2), root * rng.uniform(2.5, 9), None
        p = [s, q, a, 0.0]
    elif fam == "tanh":
        k = 10.0 ** rng.uniform(-1, 2.5)
        c = rng.uniform(-3, 3)
        d = rng.choice([0.0, rng.uniform(-0.9, 0.9)])
        root = c + math.atanh(-d) / k
        b0 = root - 10.0 ** rng.uniform(-2, 1)
        b1 = root + 10.0 ** rng.uniform(-2, 1)
        if rng.random() < 0.15:
            scen, b0, root = "no_root", root + 0.1 * (b1 - root), None
        p = [s, k, c, d]
    elif fam == "sinlin":
        k = rng.uniform(0.5, 12)
        m = rng.choice([0.0, rng.uniform(-0.5, 0.5), rng.uniform(1, 3)])
        c = rng.uniform(-0.9, 0.9)
        ctr = rng.uniform(-3, 3)
        b0 = ctr - rng.uniform(0.2, 4)
        b1 = ctr + rng.uniform(0.2, 4)
        p = [s, k, m, c]
    elif fam == "cube":
        c = rng.uniform(-2, 2)
        d = rng.choice([0.0, 0.0, 1e-6, 1e-2, 1.0])
        flat_root, root = (d == 0.0), c
        b0 = c - 10.0 ** rng.uniform(-1, 1)
        b1 = c + 10.0 ** rng.uniform(-1, 1)
        if rng.random() < 0.25:
            scen, b1 = "symmetric", c + (c - b0)
        p = [s, c, d, 0.0]
    elif fam == "plateau":
        c = rng.uniform(-2, 2)
        w = rng.choice([0.0, rng.uniform(0.05, 1.0)])
        flat_root = True
        b0 = c - w - 10.0 ** rng.uniform(-1, 1)
        b1 = c + w + 10.0 ** rng.uniform(-1, 1)
        p = [s, c, w, 0.0]
    elif fam == "exp":
        k = rng.choice([-1, 1]) * 10.0 ** rng.uniform(-1, 1)
        a = 10.0 ** rng.uniform(-2, 2)
        root = math.log(a) / k
        b0 = root - rng.uniform(0.1, 5) / abs(k)
        b1 = root + rng.uniform(0.1, 5) / abs(k)
        p = [s, k, a, 0.0]
    elif fam == "lin":
        a = rng.choice([1, -1]) * 10.0 ** rng.uniform(-2, 2)
        c = rng.uniform(-5, 5)
        root = c / a
        b0 = root - 10.0 ** rng.uniform(-2, 2)
        b1 = root + 10.0 ** rng.uniform(-2, 2)
        if rng.random() < 0.15:
            scen, b0, root = "no_root", root + 0.3 * (b1 - root), None
        p = [a, c, 0.0, 0.0]
    else:  # rq
        r = rng.uniform(-3, 3)
        b = 10.0 ** rng.uniform(-2, 1)
        root = r
        b0 = r - 10.0 ** rng.uniform(-1, 1)
        b1 = r + 10.0 ** rng.uniform(-1, 1)
        p = [s, r, b, 0.0]
    w = b1 - b0
    gk = rng.choice(["inside", "inside", "inside", "at_lo", "at_hi", "below", "above", "far_below", "far_above", "mid",
                     "at_root"])
    if gk == "at_root" and root is None:
        gk = "inside"
    g = {"inside": b0 + w * rng.random(), "at_lo": b0, "at_hi": b1, "below": b0 - w * rng.uniform(0.01, 2),
         "above": b1 + w * rng.uniform(0.01, 2), "far_below": -1e6, "far_above": 1e6, "mid": 0.5 * (b0 + b1),
         "at_root": root}[gk]
    return dict(family=fam, p=[float(v) for v in p], b0=float(b0), b1=float(b1), guess=float(g), guess_kind=gk,
                scenario=scen, flat_root=bool(flat_root))


class Genuine:
    """find_root on the families; one jit per (family, batched?)."""

    def __init__(self):
        import jax
        import jax.numpy as jnp
        from optimism import ScalarRootFind as S
        self.jax, self.jnp, self.S = jax, jnp, S
        self.fams = families()
        self.log = []
        self._jit, self._vm, self._grad, self._plain = {}, {}, {}, {}

    def rec(self, lane, x, y):
        self.log.append((int(lane), float(x), float(y)))

    def _f(self, fam, ordered):
        jax, fn = self.jax, self.fams[fam]

        def f(x, p, lane):
            y = fn(x, p)
            jax.debug.callback(self.rec, lane, x, y, ordered=ordered)
            return y
        return f

    def _run(self, fam, ordered):
        S, jnp, f = self.S, self.jnp, self._f(fam, ordered)

        def run(p, g, lo, hi, lane, maxit, xtol, rtol):
            x, info = S.find_root(lambda x: f(x, p, lane), g, jnp.stack([lo, hi]), S.Settings(maxit, xtol, rtol))
            return x, info.converged, info.iterations
        return run

    def plain(self, fam):
        if fam not in self._plain:
            fn = self.fams[fam]
            self._plain[fam] = (self.jax.jit(fn), self.jax.jit(self.jax.grad(fn, argnums=(0, 1))))
        return self._plain[fam]

    def call(self, case):
        """returns list of (xret, conv, it, xs, ys) per lane"""
        jax, jnp = self.jax, self.jnp
        fam, mode = case["family"], case["mode"]
        xt, rt = case["x_tol"], case["r_tol"]
        self.log = []
        if mode == "vmap":
            if fam not in self._vm:
                self._vm[fam] = jax.jit(jax.vmap(self._run(fam, False), in_axes=(0, 0, 0, 0, 0, None, None, None)))
            L = case["lanes"]
            n = len(L)
            out = self._vm[fam](jnp.array([c["p"] for c in L]), jnp.array([c["guess"] for c in L]),
                                jnp.array([c["b0"] for c in L]), jnp.array([c["b1"] for c in L]),
                                jnp.arange(n), case["maxit"], xt, rt)
            out = jax.block_until_ready(out)
            jax.effects_barrier()
            res = []
            for k in range(n):
                it = int(out[2][k])
                seq = [(x, y) for (ln, x, y) in self.log if ln == k][:3 + it]   # lanes already finished keep being evaluated
                res.append((float(out[0][k]), bool(out[1][k]), it, [a for a, _ in seq], [b for _, b in seq]))
            return res
        args = (jnp.array(case["p"]), case["guess"], jnp.float64(case["b0"]), jnp.float64(case["b1"]), 0,
                case["maxit"], xt, rt)
        if mode == "jit":
            if fam not in self._jit:
                self._jit[fam] = jax.jit(self._run(fam, True))
            out = self._jit[fam](*args)
        else:                                  # eager single call, settings as plain python numbers
            f = self._f(fam, True)
            p = jnp.array(case["p"])
            x, info = self.S.find_root(lambda x: f(x, p, 0), case["guess"], jnp.array([case["b0"], case["b1"]]),
                                       self.S.get_settings(max_iters=case["maxit"], x_tol=xt, r_tol=rt))
            out = (x, info.converged, info.iterations)
        out = jax.block_until_ready(out)
        jax.effects_barrier()
        return [(float(out[0]), bool(out[1]), int(out[2]), [x for _, x, _ in self.log], [y for _, _, y in self.log])]

    # ---- derivative of the root w.r.t. the parameters, through find_root
    def deriv(self, case):
        jax, jnp, S = self.jax, self.jnp, self.S
        fam = case["family"]
        fn = self.fams[fam]
        key = (fam, case["bdep"])
        if key not in self._grad:
            bdep = case["bdep"]

            def rootfun(p, g, lo, hi, maxit, xtol, rtol):
                hi2 = hi + (p[2] - jax.lax.stop_gradient(p[2])) if bdep else hi    # bracket depends on a parameter
                x, _ = S.find_root(lambda x: fn(x, p), g, jnp.stack([lo, hi2]), S.Settings(maxit, xtol, rtol))
                return x
            self._grad[key] = (jax.jit(rootfun), jax.jit(jax.jacfwd(rootfun)), jax.jit(jax.grad(rootfun)))
        rf, jf, jr = self._grad[key]
        args = (jnp.array(case["p"]), case["guess"], jnp.float64(case["b0"]), jnp.float64(case["b1"]), case["maxit"],
                case["x_tol"], case["r_tol"])
        x = float(rf(*args))
        dfwd = [float(v) for v in jf(*args)]
        drev = [float(v) for v in jr(*args)]
        _, g = self.plain(fam)
        fx, fp = g(jnp.float64(x), jnp.array(case["p"]))
        fx = float(fx)
        ift = [-(float(v)) / fx if fx != 0 else float("nan") for v in fp]
        return x, dfwd, drev, ift


def closed_form(case):
    """closed-form d(root)/dp at the exact root for the closed-form families (None where not available)"""
    fam, p = case["family"], case["p"]
    if fam == "lin":
        a, c = p[0], p[1]
        return [-c / a ** 2, 1.0 / a, 0.0, 0.0]
    if fam == "power":
        q, a = p[1], p[2]
        r = a ** (1.0 / q)
        return [0.0, -r * math.log(a) / q ** 2, r / (a * q), 0.0]
    if fam == "rq":
        return [0.0, 1.0, 0.0, 0.0]
    if fam == "exp":
        k, a = p[1], p[2]
        return [0.0, -math.log(a) / k ** 2, 1.0 / (a * k), 0.0]
    if fam == "tanh":
        k, d = p[1], p[3]
        return [0.0, -math.atanh(-d) / k ** 2, 1.0, -1.0 / (k * (1 - d * d))]
    return None


def cmp_code(a, b):
    """comparison code of two evaluations of the same derivative; allowance 1e-9 * max(1, |a|, |b|)"""
    if a != a or b != b:
        return "NAN"
    if abs(a - b) <= DERIV_RTOL * max(1.0, abs(a), abs(b)):
        return "EQ"
    return "LT" if a < b else "GT"


def genuine_trace(tid, case, lane_case, res, gen):
    """alpha: floats -> dense ranks / signs / booleans.  Returns (trace, features)."""
    xret, conv, it, xs, ys = res
    c = lane_case
    vals = sorted({v for v in [c["b0"], c["b1"], c["guess"], xret] + xs if v == v})
    rk = {v: k for k, v in enumerate(vals)}
    R = lambda v: rk[v] if v == v else NANPOS
    evs = [ev_rec("E", x=R(x), s=sign(y)) for x, y in zip(xs, ys)]
    fplain, fgrad = gen.plain(c["family"])
    f_indep = lambda x: float(fplain(gen.jnp.float64(x), gen.jnp.array(c["p"])))
    stepLt, resLt, stag, exact = tol_flags(xs, ys, xret, case["x_tol"], case["r_tol"], f_indep)
    evs.append(ev_rec("R", x=R(xret), conv=conv, it=it, stepLt=stepLt, resLt=resLt, stag=stag, exact=exact))
    tr = dict(id=tid, mode="genuine", lo=R(c["b0"]), hi=R(c["b1"]), g=R(c["guess"]), T=0, R=0, maxit=0, ev=evs)
    # classification features (for known-finding signatures); computed from the observation only
    zs = False
    for j in range(2, len(xs) - 1):
        if ys[j] == 0.0 and xs[j] == xs[j] and xs[j + 1] != xs[j + 1]:
            dfx = float(fgrad(gen.jnp.float64(xs[j]), gen.jnp.array(c["p"]))[0])
            zs = zs or dfx == 0.0
    sl, sh = (sign(ys[0]), sign(ys[1])) if len(ys) >= 2 else (2, 2)
    feats = dict(sign_change=(sl * sh < 0 and 2 not in (sl, sh)),
                 zero_slope_root_hit=bool(zs),
                 iteration_cap_hit=bool(not conv and it == case["maxit"] and all(x == x for x in xs)),
                 product_underflow=bool(len(ys) >= 2 and ys[0] * ys[1] == 0.0 and ys[0] != 0.0 and ys[1] != 0.0))
    return tr, feats


def make_genuine_cases(tier, rng):
    nj, nv, ne = (60, 2, 1) if tier == "quick" else (600, 16, 6)
    cases = []
    for fam in FAMILY_ORDER:
        for k in range(nj):
            c = sample_case(fam, rng)
            xt, rt = SETTINGS[k % 3]
            c.update(kind="genuine", mode="jit", x_tol=xt, r_tol=rt, maxit=(50 if (k // 3) % 2 == 0 else 200))
            cases.append(c)
        for k in range(nv):
            xt, rt = SETTINGS[k % 3]
            lanes = [sample_case(fam, rng) for _ in range(16)]
            cases.append(dict(kind="genuine", mode="vmap", family=fam, lanes=lanes, x_tol=xt, r_tol=rt,
                              maxit=(200 if k % 2 == 0 else 50)))
        for k in range(ne):
            c = sample_case(fam, rng)
            xt, rt = SETTINGS[(k + FAMILY_ORDER.index(fam)) % 3]
            c.update(kind="genuine", mode="eager", x_tol=xt, r_tol=rt, maxit=(50 if k % 2 == 0 else 200))
            cases.append(c)
    # the upstream tests' own inputs
    e = sys.float_info.epsilon
    for (fam, p, b0, b1, g) in [("power", [1.0, 3.0, 4.0, 0.0], e, 100.0, 1e-5), ("power", [1.0, 3.0, 4.0, 0.0], 2.0, 100.0, 1e-5),
                                ("power", [1.0, 3.0, 4.0, 0.0], e, 20.0, 19.0), ("power", [1.0, 2.0, 9.0, 0.0], e, 9.0, 8.0),
                                ("poly3", [1.0, 0.0, 10.0 ** 0.5, -10.0 ** 0.5], 0.0, 1.0, 3.0),
                                ("poly3", [1.0, 0.0, 10.0 ** 0.5, -10.0 ** 0.5], -1.0, 0.0, 3.0)]:
        for mode in ("jit", "eager"):
            cases.append(dict(kind="genuine", mode=mode, family=fam, p=p, b0=b0, b1=b1, guess=g, guess_kind="upstream",
                              scenario="upstream", flat_root=False, x_tol=1e-13, r_tol=0.0, maxit=50))
    # values so small that fl*fh underflows although the signs differ (monotone, one simple root)
    for a, g in ((1e-170, 0.3), (-1e-200, 2.0)):
        cases.append(dict(kind="genuine", mode="jit", family="lin", p=[a, a, 0.0, 0.0], b0=0.0, b1=3.0, guess=g,
                          guess_kind="inside", scenario="tiny_values", flat_root=False, x_tol=1e-13, r_tol=0.0, maxit=50))
    # roots so large that the float spacing at the root exceeds x_tol (and x_tol = 0 at ordinary roots): the search can only
    # end through the stagnation test `x + dx == x` of the Newton / bisection steps (directed, no rng; seed C17d)
    for (p, b0, b1) in [([1.0, 3.0, 3e12, 0.0], 1e-3, 1e8), ([1.0, 3.0, 5e20, 0.0], 1e-3, 1e8), ([1.0, 2.0, 1e10 + 1.0, 0.0], 1.0, 1e7),
                        ([-1.0, 3.0, 7e15, 0.0], 1e-3, 1e8), ([1.0, 5.0, 3e30, 0.0], 1.0, 1e9), ([1.0, 2.0, 2e16, 0.0], 1.0, 1e12)]:
        for g in (b0 + 1.0, 0.5 * (b0 + b1), 2.0 * b1):
            for mode in ("jit", "eager"):
                cases.append(dict(kind="genuine", mode=mode, family="power", p=p, b0=b0, b1=b1, guess=g, guess_kind="large_root",
                                  scenario="large_root", flat_root=False, x_tol=1e-13, r_tol=0.0, maxit=200))
    for (p, b0, b1, g) in [([1.0, 3.0, 4.0, 0.0], 0.5, 100.0, 1.0), ([1.0, 2.0, 9.5, 0.0], 1.0, 9.0, 8.0), ([-2.0, 3.0, 0.3, 0.0], 0.0, 2.0, 1.5)]:
        cases.append(dict(kind="genuine", mode="jit", family="power", p=p, b0=b0, b1=b1, guess=g, guess_kind="zero_tol",
                          scenario="zero_tol", flat_root=False, x_tol=0.0, r_tol=0.0, maxit=200))
    return cases


def make_deriv_cases(tier, rng):
    n = 12 if tier == "quick" else 120
    cases = []
    for fam in ["lin", "power", "rq", "exp", "tanh", "poly3", "sinlin", "cube"]:
        k = 0
        tries = 0
        while k < n and tries < 50 * n:
            tries += 1
            c = sample_case(fam, rng)
            if fam == "cube" and c["flat_root"]:
                continue                        # implicit-function theorem needs f'(root) != 0
            if fam in ("poly3",) and c["scenario"] not in ("one_in", "three_in"):
                continue
            if c["scenario"] in ("no_root", "above"):
                continue
            xt, rt = SETTINGS[k % 3]
            c.update(kind="deriv", x_tol=xt, r_tol=rt, maxit=200, bdep=(fam in ("power", "exp", "rq") and k % 2 == 1))
            cases.append(c)
            k += 1
    return cases


def deriv_trace(tid, case, gen):
    x, dfwd, drev, ift = gen.deriv(case)
    evs, n = [], 0
    if x != x:
        return None, 0                          # no root returned (e.g. sinlin without sign change): nothing to differentiate
    ndir = {"lin": 2, "power": 3, "rq": 3, "exp": 3, "tanh": 4, "poly3": 4, "sinlin": 4, "cube": 3}[case["family"]]
    cf = closed_form(case) if (case["x_tol"] == 1e-13) else None
    for d in range(ndir):
        evs.append(ev_rec("D", x=d, s=0, cmp=cmp_code(dfwd[d], ift[d])))      # forward mode vs IFT at the returned root
        evs.append(ev_rec("D", x=d, s=1, cmp=cmp_code(drev[d], ift[d])))      # reverse mode vs IFT at the returned root
        n += 2
        if cf is not None and abs(cf[d]) < 1e3:
            # closed form at the exact root; only for the tight setting (root error 1e-13 is below the allowance)
            evs.append(ev_rec("D", x=d, s=2, cmp=cmp_code(dfwd[d], cf[d])))
            n += 1
    return dict(id=tid, mode="genuine", lo=0, hi=0, g=0, T=0, R=0, maxit=0, ev=evs), n


# ============================================================================ main
def tlc_retry(*a, **kw):
    """TLC occasionally dies without any message when many JVMs start at once on this box: one retry."""
    res = tlc.run(*a, **kw)
    if not res.ok and not res.violated and not res.timed_out and "Error:" not in res.stdout:
        res = tlc.run(*a, **kw)
    return res


def design_runs(rep, tier):
    cfgs = ["RootFind_quick.cfg"] if tier == "quick" else ["RootFind_quick.cfg", "RootFind_thorough.cfg", "RootFind_thorough5.cfg"]
    acts = {}
    for cfg in cfgs:
        res = tlc_retry("RootFind.tla", cfg, label="design-" + cfg, timeout=3000)
        if tlc.require_ok(res, rep, "design"):
            rep.add_tlc(res)
            for a, n in res.action_counts.items():
                acts[a] = acts.get(a, 0) + n
    # binding of the design spec: the model of the code before /repo 537ef08 (no stop on an exact root) must
    # violate the contract (zero-slope root -> NaN); otherwise the spec could not have seen that defect
    old = tlc_retry("RootFind.tla", "RootFind_oldcode.cfg", label="regression-model", timeout=600, coverage=False)
    if "Contract" not in old.violated:
        rep.machinery("regression model RootFind_oldcode.cfg no longer violates Contract: %s" % tlc.tail(old, 8))
    rep.coverage["regression_model_violates_contract"] = "Contract" in old.violated
    return acts


def generate(rep, tier):
    nsim = 2000 if tier == "quick" else 12000
    behs = []
    for k, cfg in enumerate(["RootFindGen_sim.cfg"] if tier == "quick" else ["RootFindGen_sim.cfg", "RootFindGen_sim5.cfg"]):
        res = tlc_retry("RootFindGen.tla", cfg, simulate=nsim, depth=24, seed=common.seed() * 7 + 1 + k,
                      label="generate-" + cfg, timeout=1500)
        if tlc.require_ok(res, rep, "generate"):
            rep.add_tlc(res)
            behs += res.payloads("BEH")
    return behs


def main(tier, replay=None):
    common.setup_paths()
    import optimism  # noqa: F401  (enables x64)
    rep = common.Reporter(PID, tier)
    rep.assumptions = [
        "meets-tolerance is read as the module's settings define it: (last change of x < x_tol) OR (|f(x)| < r_tol); "
        "a last step of size zero satisfies any x tolerance; allowance for the x-step comparison 4*eps*max|x| "
        "(x + dx is evaluated in floating point)",
        "in-bracket, end-point and NaN clauses are exact float comparisons (dense ranks)",
        "derivative comparison code: |a-b| <= 1e-9*max(1,|a|,|b|); oracle = -(df/dp)/(df/dx) by jax.grad of the plain "
        "family function at the returned root; closed forms additionally for the (1e-13,0) setting",
        "every evaluation of f is observed by jax.debug.callback inside the user function (no source hook); vmap lanes "
        "are separated by a lane id argument and truncated to 3+iterations evaluations",
        "scripted environments (jax.pure_callback + custom_jvp host tables) use dyadic values so that the code's "
        "floating-point arithmetic is exact; contract clauses are not judged when the code leaves the table",
        "the spec constant StopOnExactRoot = TRUE models the code since /repo 537ef08 (F == 0 counts as converged); "
        "RootFind_oldcode.cfg keeps the earlier variant as a regression model that must violate the contract",
    ]
    rng = random.Random(common.seed())
    traces, cases, feats = [], {}, {}
    tid = 0
    gen = runner = None

    if replay:
        todo = [json.load(open(replay))["case"]]
    else:
        skip_design = bool(os.environ.get("VERIF_SKIP_DESIGN"))     # self-test only (library mutants do not change the spec)
        acts = {} if skip_design else design_runs(rep, tier)
        behs = generate(rep, tier)
        good = [b for b in behs if consistent(b)]
        rep.coverage["behaviours_emitted_by_tlc"] = len(behs)
        rep.coverage["behaviours_function_consistent"] = len(good)
        todo = [script_case(b, rng) for b in good]
        todo += make_genuine_cases(tier, rng)
        todo += make_deriv_cases(tier, rng)
        for a in ("Init", "Bisect", "Newton", "NaNStep", "Stop"):
            if acts.get(a, 0) == 0 and not rep.machinery_errors and not skip_design:
                rep.machinery("design run never took action %s" % a)

    counts = {}
    paths, modes = {}, {}

    def bump(k, n=1):
        counts[k] = counts.get(k, 0) + n

    for case in todo:
        kind = case["kind"]
        if kind == "script":
            runner = runner or ScriptRunner()
            tid += 1
            tr, ft = run_script(case, runner, tid)
            traces.append(tr)
            cases[tid], feats[tid] = case, ft
            paths[ft["path"]] = paths.get(ft["path"], 0) + 1
            for e in case["beh"]["evals"]:
                modes["spec:" + e["a"]] = modes.get("spec:" + e["a"], 0) + 1
            sl, sh = sign(case["beh"]["call"]["fl"]), sign(case["beh"]["call"]["fh"])
        elif kind == "genuine":
            gen = gen or Genuine()
            lanes = case["lanes"] if case["mode"] == "vmap" else [case]
            for k, res in enumerate(gen.call(case)):
                if replay and case["mode"] == "vmap" and k != case.get("lane", k):
                    continue
                tid += 1
                tr, ft = genuine_trace(tid, case, lanes[k], res, gen)
                traces.append(tr)
                c = dict(case)
                c["lane"] = k
                cases[tid], feats[tid] = c, dict(ft, family=case["family"], mode=case["mode"], maxit=case["maxit"],
                                                 flat_root=lanes[k]["flat_root"], x_tol=case["x_tol"], r_tol=case["r_tol"])
                modes["%s:%s" % (case["mode"], case["family"])] = modes.get("%s:%s" % (case["mode"], case["family"]), 0) + 1
                ys = res[4]
                sl, sh = (sign(ys[0]), sign(ys[1])) if len(ys) >= 2 else (2, 2)
        else:
            gen = gen or Genuine()
            tid += 1
            tr, n = deriv_trace(tid, case, gen)
            if tr is None:
                continue
            traces.append(tr)
            cases[tid], feats[tid] = case, dict(family=case["family"], bdep=case["bdep"])
            bump("ift_derivative", n)
            continue
        # clause evaluation counts = number of traces whose antecedent holds (measured from the observation)
        if 2 not in (sl, sh):
            if sl * sh < 0:
                bump("bracketed_in_bracket")
                if tr["ev"][-1]["x"] != NANPOS:
                    bump("bracketed_meets_tol")
            elif sl == 0 or sh == 0:
                bump("endpoint_root_returned")
            else:
                bump("no_sign_change_nan")

    for k, n in counts.items():
        rep.count_clause(k, n)
    rep.coverage["spec_paths_replayed"] = len(paths)
    rep.coverage["runs_by_mode"] = modes
    if traces:
        for t in (traces[0], traces[len(traces) // 3], traces[len(traces) // 2], traces[-1]):
            rep.sample(dict(trace=dict(t, ev=t["ev"][:8]), case={k: v for k, v in cases[t["id"]].items() if k != "lanes"}))

    def on_fail(t, l, clause):
        c = dict(cases[t])
        c.update({k: v for k, v in feats[t].items() if k not in c})
        c["event"] = l
        rep.fail(clause, c)
    for chunk in [traces[k:k + 3000] for k in range(0, len(traces), 3000)]:
        n0 = len(rep.machinery_errors)
        trace.validate("RootFindTrace.tla", "RootFindTrace.cfg", chunk, rep, on_fail=on_fail, chunk=3000)
        if len(rep.machinery_errors) > n0 and "Error" not in rep.machinery_errors[-1]:
            del rep.machinery_errors[n0:]          # TLC died without a message: one retry
            trace.validate("RootFindTrace.tla", "RootFindTrace.cfg", chunk, rep, on_fail=on_fail, chunk=3000)
    vc = {}
    for clause, c, _ in rep.violations:
        k = "%s|%s|%s|%s|maxit=%s|tol=%s,%s|zero_slope=%s|cap=%s|flat_root=%s|underflow=%s" % (
            clause, c["kind"], c.get("family"), c.get("mode"), c.get("maxit"), c.get("x_tol"), c.get("r_tol"),
            c.get("zero_slope_root_hit"), c.get("iteration_cap_hit"), c.get("flat_root"), c.get("product_underflow"))
        vc[k] = vc.get(k, 0) + 1
    if vc:
        rep.coverage["violation_classes"] = vc

    if not replay:
        for cl in ("bracketed_in_bracket", "bracketed_meets_tol", "endpoint_root_returned", "no_sign_change_nan",
                   "ift_derivative"):
            if counts.get(cl, 0) < 10:
                rep.machinery("vacuity: clause %s evaluated only %d times" % (cl, counts.get(cl, 0)))
        if len(paths) < 10:
            rep.machinery("vacuity: only %d distinct spec paths replayed" % len(paths))
    nd = len(paths) + len({(f.get("family"), f.get("mode"), f.get("x_tol"), f.get("maxit"), f.get("sign_change"))
                           for f in feats.values() if "mode" in f})
    return rep.finish(rule="(B) behaviours of RootFindGen.tla drawn by TLC simulation, function-consistent ones concretised "
                           "with seeded dyadic scales and run on the real rtsafe_; (C) seeded members of 9 smooth families x "
                           "3 tolerance settings x {50,200} iterations x {jit, vmap, eager} plus the upstream tests' inputs; "
                           "distinct = distinct spec action paths + distinct (family, mode, setting, budget, sign-change) classes",
                      extra={"distinct_nontrivial": nd}, exhaustive=False)


if __name__ == "__main__":
    sys.exit(main(common.tier()))
