"""CLI: ./check C20 --tier quick | ./check C20 --replay replays/C20-....json"""
import argparse
import importlib
import sys
import traceback

from harness import common


def main():
    ap = argparse.ArgumentParser()
    ap.add_argument("pid")
    ap.add_argument("--tier", default=None)
    ap.add_argument("--replay", default=None)
    a = ap.parse_args()
    mod = importlib.import_module("checks." + a.pid.lower())
    try:
        rc = mod.main(common.tier(a.tier), replay=a.replay)
    except SystemExit:
        raise
    except Exception:
        traceback.print_exc()
        print("MACHINERY-ERROR %s: harness exception" % a.pid)
        rc = 2
    sys.exit(rc)


if __name__ == "__main__":
    main()
