"""C20 — VTK output is a well-formed dataset that round-trips.

TLC explores VTKWriter.tla (op sequences add_nodal/add_cell/add_sphere/add_contact_edges/write);
every emitted behaviour is executed on the real optimism.VTKWriter for element orders 1..4, each file
is parsed by the independent reader below (counts records as written, never trusts declared counts),
and the abstract file records are validated by VTKWriterTrace.tla.
"""
import json
import os
import random
import shutil
import sys
import warnings

import numpy as onp

from harness import common, tlc, trace

PID = "C20"
KW = {"POINTS", "CELLS", "CELL_TYPES", "POINT_DATA", "CELL_DATA", "SCALARS", "VECTORS", "TENSORS", "LOOKUP_TABLE"}
KINDS = {"S": "SCALARS", "V": "VECTORS", "T": "TENSORS"}


# ----------------------------------------------------------------------------- independent reader
def parse_vtk(text):
    """Returns dict of sections with the data lines actually present under each header."""
    lines = text.split("\n")
    if lines and lines[-1] == "":
        lines = lines[:-1]
    out = {"header": lines[:4], "sections": []}
    cur = None
    for ln in lines[4:]:
        toks = ln.split()
        if toks and toks[0] in KW:
            if toks[0] == "LOOKUP_TABLE":
                cur["lookup"] = toks[1:]
                continue
            cur = {"kw": toks[0], "args": toks[1:], "lines": []}
            out["sections"].append(cur)
        else:
            if cur is None:
                cur = {"kw": "?", "args": [], "lines": []}
                out["sections"].append(cur)
            cur["lines"].append(ln)
    return out


def _num(tok):
    try:
        return int(tok)
    except ValueError:
        return float(tok)


def abstract_file(text, ctx):
    """alpha: file text -> abstract record of VTKWriter.tla plus round-trip comparison flags.
    ctx: mesh facts and the supplied values (from the driver)."""
    p = parse_vtk(text)
    secs = p["sections"]
    rec = dict(pointsDecl=-1, pointLines=0, cellsDecl=-1, cellLines=0, intsDecl=-1, intsWritten=0,
               typesDecl=-1, typeLines=0, pdPresent=False, pdDecl=0, nodalArrays=[], cdPresent=False,
               cdDecl=0, cellArrays=[], connInRange=True, typesOk=True, coordsOk=True, connOk=True,
               valuesOk=True, headerOk=True)
    hdr = p["header"]
    rec["headerOk"] = (len(hdr) == 4 and hdr[0].startswith("# vtk DataFile Version") and hdr[2] == "ASCII"
                       and hdr[3] == "DATASET UNSTRUCTURED_GRID")
    points, cells, types = [], [], []
    mode = None
    arrays = {"POINT_DATA": [], "CELL_DATA": []}
    for s in secs:
        kw = s["kw"]
        data = [ln for ln in s["lines"] if ln.strip() != ""]
        if len(data) != len(s["lines"]):
            rec["headerOk"] = False          # blank line inside a data block
        if kw == "POINTS":
            rec["pointsDecl"] = int(s["args"][0])
            rec["pointLines"] = len(data)
            points = [[_num(t) for t in ln.split()] for ln in data]
        elif kw == "CELLS":
            rec["cellsDecl"] = int(s["args"][0])
            rec["intsDecl"] = int(s["args"][1])
            rec["cellLines"] = len(data)
            cells = [[_num(t) for t in ln.split()] for ln in data]
            rec["intsWritten"] = sum(len(c) for c in cells)
        elif kw == "CELL_TYPES":
            rec["typesDecl"] = int(s["args"][0])
            rec["typeLines"] = len(data)
            types = [[_num(t) for t in ln.split()] for ln in data]
        elif kw == "POINT_DATA":
            rec["pdPresent"] = True
            rec["pdDecl"] = int(s["args"][0])
            mode = "POINT_DATA"
            if data:
                rec["headerOk"] = False
        elif kw == "CELL_DATA":
            rec["cdPresent"] = True
            rec["cdDecl"] = int(s["args"][0])
            mode = "CELL_DATA"
            if data:
                rec["headerOk"] = False
        elif kw in ("SCALARS", "VECTORS", "TENSORS"):
            kind = kw[0]
            a = dict(name=s["args"][0], kind=kind, dtype=s["args"][1], lines=len(data))
            vals = [[_num(t) for t in ln.split()] for ln in data]
            if mode is None:
                rec["headerOk"] = False
            else:
                arrays[mode].append((a, vals, kw == "SCALARS" and "lookup" not in s))
        else:
            rec["headerOk"] = False
    rec["nodalArrays"] = [a for a, _, _ in arrays["POINT_DATA"]]
    rec["cellArrays"] = [a for a, _, _ in arrays["CELL_DATA"]]
    for a, _, missing_lookup in arrays["POINT_DATA"] + arrays["CELL_DATA"]:
        if missing_lookup:
            rec["headerOk"] = False

    # -- connectivity refers only to written points; every cell line is "n id*n"
    npts = len(points)
    for c in cells:
        if not c or not all(isinstance(t, int) for t in c) or c[0] != len(c) - 1:
            rec["connInRange"] = False
        elif any(t < 0 or t >= npts for t in c[1:]):
            rec["connInRange"] = False
    if any(len(q) != 3 for q in points):
        rec["coordsOk"] = False

    # -- cell type codes
    nEl, nE = ctx["nEl"], len(ctx["edges"])
    want = [ctx["cellType"]] * nEl + [3] * nE
    rec["typesOk"] = ([t[0] if len(t) == 1 else None for t in types] == want)

    # -- round trip: coordinates
    wantPts = [[float(x), float(y), 0.0] for x, y in ctx["outCoords"]] + [list(map(float, s)) for s in ctx["spheres"]]
    rec["coordsOk"] = rec["coordsOk"] and ([[float(v) for v in q] for q in points] == wantPts)

    # -- round trip: connectivity, judged geometrically (independent of the permutation constant)
    ok = len(cells) == nEl + nE
    if ok and rec["connInRange"]:
        P = onp.array([[float(v) for v in q] for q in points]) if points else onp.zeros((0, 3))
        for e in range(nEl):
            ids = cells[e][1:]
            vx = ctx["elVerts"][e]           # 3 vertex coordinates (ccw, as stored in the mesh)
            if ctx["cellType"] == 5:
                ok = ok and len(ids) == 3 and all(tuple(P[ids[i]][:2]) == tuple(vx[i]) for i in range(3))
            else:
                ok = ok and len(ids) == 6 and all(tuple(P[ids[i]][:2]) == tuple(vx[i]) for i in range(3))
                if ok:
                    for i, (a, b) in enumerate(((0, 1), (1, 2), (2, 0))):
                        mid = 0.5 * (P[ids[a]][:2] + P[ids[b]][:2])
                        ok = ok and float(onp.abs(P[ids[3 + i]][:2] - mid).max()) <= 1e-12
                    ok = ok and sorted(tuple(P[i][:2]) for i in ids) == sorted(map(tuple, ctx["elNodes"][e]))
        for j in range(nE):
            ok = ok and cells[nEl + j][1:] == list(ctx["edges"][j])
    else:
        ok = False
    rec["connOk"] = bool(ok)

    # -- round trip: field values (entities supplied by the user; padding rows must be zeros)
    def check(arrs, supplied, nent):
        good = True
        user = [(a, v) for a, v, _ in arrs if a["name"] in supplied]
        for a, vals in user:
            sup = supplied[a["name"]]
            per = 3 if a["kind"] == "T" else 1
            width = 1 if a["kind"] == "S" else 3
            flat = vals
            if any(len(r) != width for r in flat):
                good = False
                continue
            exp = sup["rows"]              # list of rows (already 3D padded) for supplied entities
            got = flat[:len(exp)]
            if sup["dtype"] == "int":
                good = good and all(isinstance(t, int) for r in got for t in r)
            good = good and [[float(t) for t in r] for r in got] == [[float(t) for t in r] for r in exp]
            good = good and all(float(t) == 0.0 for r in flat[len(exp):] for t in r)
        return good
    rec["valuesOk"] = bool(check(arrays["POINT_DATA"], ctx["nodalSupplied"], None)
                           and check(arrays["CELL_DATA"], ctx["cellSupplied"], None))
    # sphere radii round trip
    for a, vals, _ in arrays["POINT_DATA"]:
        if a["name"] == "sphere_radius" and "sphere_radius" not in ctx["nodalSupplied"]:
            tailv = [r[0] for r in vals[len(vals) - len(ctx["radii"]):]] if ctx["radii"] else []
            if [float(t) for t in tailv] != [float(r) for r in ctx["radii"]]:
                rec["valuesOk"] = False
    rec["wellformedHeader"] = rec.pop("headerOk")
    return rec


# ----------------------------------------------------------------------------- driver (real code)
_MESHES = {}


def get_mesh(order):
    from optimism import Mesh
    if order not in _MESHES:
        m = Mesh.construct_structured_mesh(2, 2, [0.0, 1.0], [0.0, 1.5])
        if order > 1:
            m = Mesh.create_higher_order_mesh_from_simplex_mesh(m, order)
        _MESHES[order] = m
    return _MESHES[order]


def mesh_abs(order):
    m = get_mesh(order)
    deg = m.parentElement.degree
    nOut = m.coords.shape[0] if deg == 2 else len(m.simplexNodesOrdinals)
    return dict(nOut=int(nOut), nEl=int(m.conns.shape[0]), npe=6 if deg == 2 else 3)


def run_behaviour(order, ops, rng, workdir):
    """Execute ops on a fresh real VTKWriter; return list of events (ops + observed file records)."""
    from optimism.VTKWriter import VTKWriter, VTKFieldType, VTKDataType
    m = get_mesh(order)
    deg = m.parentElement.degree
    coords = onp.asarray(m.coords)
    conns = onp.asarray(m.conns)
    outNodes = onp.arange(coords.shape[0]) if deg == 2 else onp.asarray(m.simplexNodesOrdinals)
    vnodes = onp.asarray(m.parentElement.vertexNodes)
    nAll, nEl = coords.shape[0], conns.shape[0]
    ctx = dict(nEl=nEl, cellType=22 if deg == 2 else 5, edges=[], spheres=[], radii=[],
               outCoords=[tuple(map(float, c)) for c in coords[outNodes]],
               elVerts=[[tuple(map(float, coords[n])) for n in conns[e, vnodes]] for e in range(nEl)],
               elNodes=[[tuple(map(float, coords[n])) for n in conns[e]] for e in range(nEl)],
               nodalSupplied={}, cellSupplied={})
    base = os.path.join(workdir, "w")
    w = VTKWriter(m, baseFileName=base)
    ft = {"S": VTKFieldType.SCALARS, "V": VTKFieldType.VECTORS, "T": VTKFieldType.TENSORS}
    dt = {"double": VTKDataType.DOUBLE, "float": VTKDataType.FLOAT, "int": VTKDataType.INT}

    def mk(n, kind, dtype):
        shape = {"S": (n,), "V": (n, 2), "T": (n, 2, 2)}[kind]
        if dtype == "int":
            return onp.array([rng.randrange(-9, 10) for _ in range(int(onp.prod(shape)))], dtype=onp.int64).reshape(shape)
        return onp.array([rng.uniform(-1, 1) * 10 ** rng.randrange(-3, 4) for _ in range(int(onp.prod(shape)))]).reshape(shape)

    def rows3d(a, kind):
        a = onp.asarray(a)
        if kind == "S":
            return [[v] for v in a.reshape(-1).tolist()]
        if kind == "V":
            return [list(r) + [0] * (3 - len(r)) for r in a.tolist()]
        out = []
        for t in a.tolist():
            d = len(t)
            for i in range(3):
                out.append([(t[i][j] if (i < d and j < d) else 0) for j in range(3)])
        return out

    events, prev = [], None
    for op in ops:
        ev = dict(op=op["op"], name=op.get("name", ""), kind=op.get("kind", ""), dtype=op.get("dtype", ""),
                  ok=bool(op.get("ok", True)), k=int(op.get("k", 0)))
        with warnings.catch_warnings():
            warnings.simplefilter("ignore")
            if op["op"] == "AddNodal":
                a = mk(nAll, op["kind"], op["dtype"])
                w.add_nodal_field(op["name"], a, ft[op["kind"]], dt[op["dtype"]])
                ctx["nodalSupplied"][op["name"]] = dict(rows=rows3d(a[outNodes], op["kind"]), dtype=op["dtype"])
            elif op["op"] == "AddCell":
                n = nEl if op["ok"] else nEl + 1
                a = mk(n, op["kind"], op["dtype"])
                w.add_cell_field(op["name"], a, ft[op["kind"]], dt[op["dtype"]])
                if op["ok"]:
                    ctx["cellSupplied"][op["name"]] = dict(rows=rows3d(a, op["kind"]), dtype=op["dtype"])
            elif op["op"] == "AddSphere":
                x = [rng.uniform(0, 1), rng.uniform(0, 1)]
                r = rng.uniform(0.01, 0.5)
                w.add_sphere(onp.array(x), r)
                ctx["spheres"].append([x[0], x[1], 0.0])
                ctx["radii"].append(r)
            elif op["op"] == "AddEdges":
                e = onp.array([[int(rng.choice(list(outNodes[:4]))), int(rng.choice(list(outNodes[:4])))]
                               for _ in range(op["k"])], dtype=onp.int64)
                w.add_contact_edges(e)
                ctx["edges"] += [tuple(map(int, r)) for r in e]
            elif op["op"] == "Write":
                if os.path.exists(base + ".vtk"):
                    os.remove(base + ".vtk")
                w.write()
                with open(base + ".vtk") as f:
                    text = f.read()
                rec = abstract_file(text, ctx)
                rec["sameAsPrev"] = (prev is None) or (prev == text)
                ev["file"] = rec
                prev = text
        if op["op"] != "Write":
            prev = None
        events.append(ev)
    return events


# ----------------------------------------------------------------------------- check
def behaviours_from_tlc(rep, tier):
    # (A) design run: invariants of the abstract writer on all meshes, no emission
    des = tlc.run("VTKWriterGen.tla", "VTKWriterGen_design.cfg" if tier == "quick" else "VTKWriterGen_design6.cfg",
                  label="design-invariants", timeout=3000)
    if tlc.require_ok(des, rep, "design-invariants"):
        rep.add_tlc(des)
    cfg = "VTKWriterGen_quick.cfg" if tier == "quick" else "VTKWriterGen_thorough.cfg"
    res = tlc.run("VTKWriterGen.tla", cfg, workers=1 if tier == "quick" else 4, label="design-" + tier, timeout=3000)
    if not tlc.require_ok(res, rep, "design"):
        return []
    rep.add_tlc(res)
    behs = res.payloads("BEH")
    if tier == "thorough":
        sim = tlc.run("VTKWriterGen.tla", "VTKWriterGen_sim.cfg", simulate=2000, depth=12, seed=common.seed() + 1,
                      label="simulate", timeout=1500)
        if tlc.require_ok(sim, rep, "simulate"):
            rep.add_tlc(sim)
            behs += sim.payloads("BEH")
    return behs


def select(behs, tier, rng):
    """One behaviour per distinct abstract state (state coverage) + a seeded sample of the
    remaining transitions; each is completed with Write, Write so every reached state is observed
    twice (idempotence)."""
    by_state, rest = {}, []
    for b in behs:
        key = json.dumps(b.get("state"), sort_keys=True)
        if key not in by_state:
            by_state[key] = b
        else:
            rest.append(b)
    chosen = list(by_state.values())
    extra = 1500 if tier == "quick" else 6000
    rng.shuffle(rest)
    chosen += rest[:extra]
    return chosen, len(by_state)


def main(tier, replay=None):
    common.setup_paths()
    rep = common.Reporter(PID, tier)
    rep.assumptions = ["independent legacy-VTK reader in checks/c20.py (counts records as written)",
                       "meshes: structured 2x2 patch elevated to orders 1..4 (file structure depends on the mesh only through nOut, nEl, npe)",
                       "float round trip judged by exact equality after Python float() parsing"]
    rng = random.Random(common.seed())
    work = common.scratch("c20")
    try:
        if replay:
            case = json.load(open(replay))["case"]
            evs = run_behaviour(case["order"], case["ops"], random.Random(case["seed"]), work)
            traces = [dict(id=1, mesh=mesh_abs(case["order"]), ev=evs)]
            cases = {1: case}
        else:
            behs = behaviours_from_tlc(rep, tier)
            chosen, nstates = select(behs, tier, rng)
            rep.coverage["behaviours_emitted_by_tlc"] = len(behs)
            rep.coverage["distinct_abstract_states_replayed"] = nstates
            traces, cases = [], {}
            tid = 0
            orders = [1, 2, 3, 4]
            for i, b in enumerate(chosen):
                ops = list(b["ops"])
                ops += [dict(op="Write"), dict(op="Write")]
                # every behaviour on one order (round robin); state-coverage ones on all four in thorough
                for order in (orders if (tier == "thorough" and i < nstates and i % 8 == 0) else [orders[i % 4]]):
                    tid += 1
                    s = rng.randrange(1 << 30)
                    try:
                        evs = run_behaviour(order, ops, random.Random(s), work)
                    except Exception as ex:     # the writer raised: a public call failed
                        rep.fail("no_exception", dict(order=order, ops=ops, seed=s), repr(ex))
                        continue
                    traces.append(dict(id=tid, mesh=mesh_abs(order), ev=evs))
                    cases[tid] = dict(order=order, ops=ops, seed=s)
                    for o in ops:
                        rep.coverage.setdefault("ops_replayed", {}).setdefault(o["op"], 0)
                        rep.coverage["ops_replayed"][o["op"]] += 1
            if traces:
                rep.sample(dict(order=cases[traces[0]["id"]]["order"], events=traces[len(traces) // 2]["ev"][:4]))
        nwrites = sum(1 for t in traces for e in t["ev"] if e["op"] == "Write")
        for c in ("wellformed", "conn_in_range", "cell_types", "rt_coords", "rt_conn", "rt_values", "rt_fields",
                  "idempotent"):
            rep.count_clause(c, nwrites)

        def on_fail(tid, l, clause):
            c = dict(cases[tid])
            c["event"] = l
            rep.fail(clause, classify(c, clause, traces, tid, l))
        trace.validate("VTKWriterTrace.tla", "VTKWriterTrace.cfg", traces, rep, on_fail=on_fail)
        # header validity is judged by the reader alone (not part of the abstract state)
        for t in traces:
            for l, e in enumerate(t["ev"]):
                if e["op"] == "Write" and not e["file"]["wellformedHeader"]:
                    c = dict(cases[t["id"]]); c["event"] = l + 1
                    rep.fail("header", c)
    finally:
        shutil.rmtree(work, ignore_errors=True)
    rc = rep.finish(rule="behaviours = paths of VTKWriter.tla's state graph emitted by TLC (one per distinct abstract "
                         "state + seeded sample of further transitions), each completed by two writes and executed "
                         "on the real VTKWriter; distinct = distinct abstract writer states",
                    extra={"distinct_nontrivial": rep.coverage.get("distinct_abstract_states_replayed", 1)},
                    exhaustive=(tier == "quick"))
    return rc


def classify(case, clause, traces, tid, l):
    """Attach the features known-finding signatures are matched on."""
    ops = case["ops"][:l]
    case = dict(case)
    case["has_sphere"] = any(o["op"] == "AddSphere" for o in ops)
    case["has_edges"] = any(o["op"] == "AddEdges" for o in ops)
    case["has_cell_field"] = any(o["op"] == "AddCell" and o.get("ok", True) for o in ops)
    case["second_write"] = l >= 2 and case["ops"][l - 2]["op"] == "Write"
    return case


if __name__ == "__main__":
    sys.exit(main(common.tier()))
