"""X05 (extension, not a listed property) — Contact.get_potential_interaction_list is a k-nearest selection of main-side
edges by node-to-node distance (InteractionList.tla); observed on two-body meshes with random displacement fields."""
import json
import random
import sys

import numpy as onp

from harness import common, tlc, trace

PID = "X05"


def run_case(c, tid):
    import jax.numpy as np
    from optimism import Mesh
    from optimism.contact import Contact
    rng = random.Random(c["seed"])
    def body(nx, ny, xr, yr, tag):
        from optimism import Surface
        coords, conns = Mesh.create_structured_mesh_data(nx, ny, xr, yr)
        tol = 1e-8
        ss = {"left" + tag: Surface.create_edges(coords, conns, lambda xy: np.all(xy[:, 0] < xr[0] + tol)),
              "right" + tag: Surface.create_edges(coords, conns, lambda xy: np.all(xy[:, 0] > xr[1] - tol))}
        m = Mesh.construct_mesh_from_basic_data(coords, conns, {"block" + tag: np.arange(conns.shape[0])}, None, ss)
        return m, np.zeros(m.coords.shape)
    m1 = body(c["n1"][0], c["n1"][1], [0.0, 1.0], [0.0, 1.0], "1")
    m2 = body(c["n2"][0], c["n2"][1], [1.0 + c["gap"], 2.0], [c["shift"], 1.0 + c["shift"]], "2")
    mesh, _ = Mesh.combine_mesh(m1, m2)
    disp = np.array([[rng.uniform(-0.05, 0.05), rng.uniform(-0.05, 0.05)] for _ in range(mesh.coords.shape[0])])
    sM = mesh.sideSets["right1"]; sI = mesh.sideSets["left2"]
    k = c["k"]
    lst = onp.asarray(Contact.get_potential_interaction_list(sM, sI, mesh, disp, k))
    sMn = onp.asarray(sM); sIn = onp.asarray(sI)
    x = onp.asarray(mesh.coords) + onp.asarray(disp)
    conns = onp.asarray(mesh.conns)
    def nodes(edge):                      # the two nodes of side `edge[1]` of element `edge[0]` (linear triangles)
        e, s = int(edge[0]), int(edge[1])
        return [conns[e][s], conns[e][(s + 1) % 3]]
    ev = []
    for i in range(sIn.shape[0]):
        ni = nodes(sIn[i])
        d = [min(float(((x[a] - x[b]) ** 2).sum()) for a in nodes(sMn[j]) for b in ni) for j in range(sMn.shape[0])]
        vals = sorted(set(d))
        ranks = [vals.index(v) + 1 for v in d]
        sel, fromM = [], True
        for row in lst[i]:
            pos = [j + 1 for j in range(sMn.shape[0]) if (sMn[j] == row).all()]
            if pos:
                sel.append(pos[0])
            else:
                fromM = False
        ev.append(dict(ranks=ranks, sel=sel, fromM=fromM))
    return dict(id=tid, k=k, nM=int(sMn.shape[0]), ev=ev)


def main(tier, replay=None):
    common.setup_paths()
    rep = common.Reporter(PID, tier)
    rep.assumptions = ["extension beyond the listed properties: not registered in MANIFEST.json",
                       "node-to-node squared distances recomputed exactly from the deformed coordinates; ties may be broken either way"]
    rng = random.Random(common.seed())
    des = tlc.run("InteractionList.tla", "InteractionList.cfg", label="design")
    tlc.require_ok(des, rep, "design")
    rep.add_tlc(des)
    cases = [dict(n1=[rng.choice([2, 3]), rng.choice([3, 4, 6])], n2=[2, rng.choice([3, 4, 5])], gap=rng.uniform(-0.05, 0.2),
                  shift=rng.uniform(-0.4, 0.4), k=rng.choice([1, 2, 3, 8]), seed=rng.randrange(1 << 30))
             for _ in range(12 if tier == "quick" else 200)]
    if replay:
        cases = [json.load(open(replay))["case"]]
    traces = [run_case(c, i + 1) for i, c in enumerate(cases)]
    for t in traces:
        rep.count_clause("k_nearest", len(t["ev"]))
    rep.sample(traces[0]["ev"][:2])
    trace.validate("InteractionListTrace.tla", "InteractionListTrace.cfg", traces, rep,
                   on_fail=lambda tid, l, clause: rep.fail(clause, dict(cases[tid - 1], event=l)))
    return rep.finish(rule="seeded two-body structured meshes with random gaps/offsets/displacements and maxNeighbors in {1,2,3,8}",
                      extra={"distinct_nontrivial": sum(len(t["ev"]) for t in traces)})


if __name__ == "__main__":
    sys.exit(main(common.tier()))
