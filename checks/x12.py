"""X12 (extension, not a listed property) — the plastic threshold phase-field model (phasefield/PhaseFieldThresholdPlastic.py)
at a material point (PhasePlastic.tla): TLC enumerates every history of length 4 over {elastic step, yielding step,
re-update} x three damage levels and checks irreversibility on the abstraction; each history is executed on the REAL
compute_state_new / energy_density with seeded constants and directions (the strain of each step is placed below or above
the current degraded yield surface); PhasePlasticTrace.tla judges irreversible, isochoric, yield_consistent,
elastic_step_is_noop, yielding_moves_to_surface, reupdate_is_noop, update_lowers_energy."""
import json
import math
import random
import sys

import numpy as onp

from harness import common, tlc, trace

PID = "X12"
PHI = [0.0, 0.4, 0.8]
NEWTON_TOL = 1e-8          # residual tolerance hard-coded in update_state
_FN = {}


def fn():
    if "f" not in _FN:
        import jax
        import jax.numpy as np
        from optimism.phasefield import PhaseFieldThresholdPlastic as M

        def step(c, H, phi, state):
            props = M.make_properties(c[0], c[1], c[2], c[3], c[4], c[5])
            z3 = np.zeros(3)
            sn = M.compute_state_new(H, phi, z3, state, props)
            return sn, M.energy_density(H, phi, z3, state, props, True), M.energy_density(H, phi, z3, state, props, False)
        _FN["f"] = jax.jit(step)
    return _FN["f"]


def dev(A):
    return A - onp.trace(A) / 3 * onp.eye(3)


def run_word(word, seed, tid):
    rs = onp.random.RandomState(seed)
    E, nu = 10 ** rs.uniform(0, 3), rs.uniform(0.0, 0.45)
    Y0, Hh = E * 10 ** rs.uniform(-3, -1), E * 10 ** rs.uniform(-3, -1)
    c = onp.array([E, nu, 1.0, 1.0, Y0, Hh])
    mu = 0.5 * E / (1 + nu)
    step = fn()
    state = onp.zeros(10)
    ev = []
    H = None
    for op in word:
        phi = PHI[int(op["ph"])]
        g = (1 - phi) ** 2
        eq_old, ep_old = float(state[0]), state[1:].reshape(3, 3).copy()
        flow = Y0 + Hh * eq_old
        if op["a"] != "reupdate":
            S = rs.normal(size=(3, 3)); S = dev(0.5 * (S + S.T)); S /= onp.linalg.norm(S)
            theta = rs.uniform(0.2, 0.9) if op["a"] == "below" else rs.uniform(1.05, 3.0)
            eel = theta * flow / (2 * g * mu * math.sqrt(1.5)) * S + rs.uniform(-1, 1) * 1e-3 * onp.eye(3)
            Wk = rs.normal(size=(3, 3))
            H = ep_old + eel + 1e-3 * (Wk - Wk.T)
        sn, w_up, w_no = (onp.asarray(x, dtype=float) for x in step(c, H, phi, state))
        eq_new, ep_new = float(sn[0]), sn[1:].reshape(3, 3)
        band_e = 100 * NEWTON_TOL / (3 * g * mu + Hh)
        de = "EQ" if abs(eq_new - eq_old) <= band_e else ("GT" if eq_new > eq_old else "LT")
        eps = 0.5 * (H + H.T)
        sig = g * 2 * mu * math.sqrt(1.5) * onp.linalg.norm(dev(eps - ep_new))
        f = sig - (Y0 + Hh * eq_new)
        band = 100 * NEWTON_TOL + 1e-12 * E
        ye = "on" if abs(f) <= band else ("inside" if f < 0 else "outside")
        dEp = ep_new - ep_old
        Ntr = dev(eps - ep_old); nn = onp.linalg.norm(Ntr)
        par = True
        if onp.linalg.norm(dEp) > 10 * band_e and nn > 0:
            par = bool(onp.linalg.norm(dEp / onp.linalg.norm(dEp) - Ntr / nn) <= 1e-6)
        ev.append(dict(a=op["a"], ph=int(op["ph"]), de=de, iso=bool(abs(onp.trace(ep_new)) <= 1e-13),
                       ye=ye, same=bool(onp.abs(dEp).max() <= 2 * band_e), dir=par,
                       en="LE" if float(w_up) <= float(w_no) + 1e-10 * max(abs(float(w_no)), Y0 * 1e-6) else "GT"))
        state = sn
    return dict(id=tid, ev=ev)


def main(tier, replay=None):
    common.setup_paths()
    rep = common.Reporter(PID, tier)
    rep.assumptions = ["extension beyond the listed properties: not registered in MANIFEST.json",
                       "bands: 100 x the Newton residual tolerance 1e-8 hard-coded in update_state (yield), that over 3 g mu + H (eqps)",
                       "moduli 1..1e3, Y0 and H 1e-3..1e-1 of E; every step is committed (the next step starts from its new state)"]
    rng = random.Random(common.seed())
    traces, cases = [], {}
    if replay:
        c = json.load(open(replay))["case"]
        traces.append(run_word(c["w"], c["seed"], 1)); cases[1] = c
    else:
        des = tlc.run("PhasePlastic.tla", "PhasePlastic.cfg", workers=1, label="design")
        tlc.require_ok(des, rep, "design")
        rep.add_tlc(des)
        words, seen = [], set()
        for b in des.payloads("BEH"):
            k = json.dumps(b["w"], sort_keys=True)
            if k not in seen:
                seen.add(k); words.append(b["w"])
        rep.coverage["distinct_words"] = len(words)
        reps = 1 if tier == "quick" else 10
        for w in words:
            for _ in range(reps):
                c = dict(w=w, seed=rng.randrange(1 << 30))
                tid = len(traces) + 1
                traces.append(run_word(w, c["seed"], tid)); cases[tid] = c
    n_ev = sum(len(t["ev"]) for t in traces)
    for cl in ("irreversible", "isochoric", "yield_consistent", "update_lowers_energy"):
        rep.count_clause(cl, n_ev)
    for a, cl in (("below", "elastic_step_is_noop"), ("above", "yielding_moves_to_surface"), ("reupdate", "reupdate_is_noop")):
        rep.count_clause(cl, sum(1 for t in traces for e in t["ev"] if e["a"] == a))
    rep.sample(traces[len(traces) // 2])
    trace.validate("PhasePlasticTrace.tla", "PhasePlasticTrace.cfg", traces, rep,
                   on_fail=lambda tid, l, clause: rep.fail(clause, dict(cases[tid], event=l)))
    return rep.finish(rule="every history of length 4 over {below, above, reupdate} x 3 damage levels (TLC), seeded constants and directions",
                      extra={"distinct_nontrivial": len(traces)}, exhaustive=True)


if __name__ == "__main__":
    sys.exit(main(common.tier()))
