"""C14 — Degree-of-freedom bookkeeping is a lossless partition for every BC set.

(A) TLC checks DofManager.tla exhaustively: every (node, component) mask of the small meshes
    (1, 2, 4 linear triangles, one and two quadratic triangles, 1..3 fields per node), the mechanism
    operators (mirror of FunctionSpace.DofManager) against the contract clauses of the property.
(B) Every mask TLC reaches is replayed as the EssentialBC list TLC built for it (node sets: singletons,
    empty, full, overlapping, repeated-member) into the REAL DofManager on a real Mesh / FunctionSpace
    with the same connectivity.
(C) The index arrays, sizes, token-field round trip, slices and per-element COO segments observed on the
    real object are logged as small integers and judged INSIDE TLC by DofManagerTrace.tla with the same
    clause operators.  Thorough tier: additionally random BC lists on structured / Delaunay meshes of
    order 1..3 and TLC-simulated BC lists on the 2^18-mask meshes.

alpha (observation -> integers): index arrays verbatim; token fields hold the integers 1..N*Dim in a seeded
random arrangement (float64, exactly representable), read back with exact integrality check (a non-integral /
non-finite entry becomes -999); no tolerance anywhere.
"""
import dataclasses
import json
import os
import random
import sys
import time

import numpy as onp

from harness import common, tlc, trace

PID = "C14"
SPEC, GEN, TSPEC, TCFG = "DofManager.tla", "DofManagerGen.tla", "DofManagerTrace.tla", "DofManagerTrace.cfg"
ACTIONS = ["AddSingleBC", "AddEmptyBC", "AddFullBC", "AddOverlapBC", "AddRepeatedBC"]
CLAUSES_BY_OP = {"Construct": ["partition", "bc_exact", "sizes"],
                 "RoundTrip": ["split", "round_trip"],
                 "Slice": ["slice"],
                 "HessLen": ["hess_len"],
                 "Hess": ["hess_mask", "hess_bag", "hess_entry"]}
BAD = -999


# ----------------------------------------------------------------------------- real meshes
def build_mesh(desc):
    """desc -> real optimism Mesh (no node sets yet).  A "renum" entry renumbers the nodes of the described mesh by a
    seeded permutation: same array shapes, same node count, different connectivity content."""
    import jax.numpy as np
    from optimism import Mesh
    if "renum" in desc:
        base = build_mesh({k: v for k, v in desc.items() if k != "renum"})
        N = int(base.coords.shape[0])
        perm = onp.random.RandomState(desc["renum"]).permutation(N)          # old node id -> new node id
        inv = onp.argsort(perm)
        return base._replace(coords=np.array(onp.asarray(base.coords)[inv]),
                             conns=np.array(perm[onp.asarray(base.conns)]),
                             simplexNodesOrdinals=np.array(perm[onp.asarray(base.simplexNodesOrdinals)]))
    kind = desc["kind"]
    if kind == "named":
        name = desc["name"]
        if name in ("T1", "Q1", "C1"):
            m = Mesh.construct_mesh_from_basic_data(np.array([[0., 0.], [1., 0.], [0., 1.]]), np.array([[0, 1, 2]]),
                                                    {"block_0": onp.arange(1)})
            order = {"T1": 1, "Q1": 2, "C1": 3}[name]
            return Mesh.create_higher_order_mesh_from_simplex_mesh(m, order)
        if name == "T2":
            return Mesh.construct_structured_mesh(2, 2, [0., 1.], [0., 1.])
        if name == "T4":
            return Mesh.construct_structured_mesh(3, 2, [0., 2.], [0., 1.])
        if name == "Q2":
            return Mesh.construct_structured_mesh(2, 2, [0., 1.], [0., 1.], 2)
        raise ValueError(name)
    if kind == "structured":
        return Mesh.construct_structured_mesh(desc["nx"], desc["ny"], [0., 1.], [0., 1.5], desc["order"])
    if kind == "delaunay":
        from scipy.spatial import Delaunay
        rs = onp.random.RandomState(desc["seed"])
        pts = onp.vstack([onp.array([[0., 0.], [1., 0.], [1., 1.], [0., 1.]]), rs.uniform(0.05, 0.95, (desc["npts"] - 4, 2))])
        tri = Delaunay(pts).simplices.astype(int)
        a, b, c = pts[tri[:, 0]], pts[tri[:, 1]], pts[tri[:, 2]]
        area = (b[:, 0] - a[:, 0]) * (c[:, 1] - a[:, 1]) - (b[:, 1] - a[:, 1]) * (c[:, 0] - a[:, 0])
        tri[area < 0] = tri[area < 0][:, ::-1]
        keep = onp.abs(area) > 1e-9
        tri = tri[keep]
        m = Mesh.construct_mesh_from_basic_data(np.array(pts), np.array(tri), {"block_0": onp.arange(tri.shape[0])})
        return Mesh.create_higher_order_mesh_from_simplex_mesh(m, desc["order"])
    raise ValueError(kind)


_FS = {}


def function_space(desc, node_sets):
    """A real FunctionSpace on the real mesh carrying the given node sets (dict name -> int array)."""
    from optimism import Mesh, FunctionSpace, QuadratureRule
    key = json.dumps(desc, sort_keys=True)
    if key not in _FS:
        m = build_mesh(desc)
        q = QuadratureRule.create_quadrature_rule_on_triangle(max(1, 2 * (m.parentElement.degree - 1)))
        _FS[key] = FunctionSpace.construct_function_space(m, q)
    fs = _FS[key]
    ns = {k: onp.array(v, dtype=int) for k, v in node_sets.items()}
    return dataclasses.replace(fs, mesh=Mesh.mesh_with_nodesets(fs.mesh, ns))


# ----------------------------------------------------------------------------- alpha
def ints(a):
    """integer arrays verbatim (flattened)"""
    a = onp.asarray(a)
    if a.dtype.kind not in "iub":
        return toks(a)
    return [int(v) for v in a.ravel()]


def toks(a):
    """float token arrays -> integers, exact; anything not an exact small integer -> BAD"""
    a = onp.asarray(a, dtype=float).ravel()
    out = []
    for v in a:
        if onp.isfinite(v) and v == onp.round(v) and abs(v) < 2 ** 30:
            out.append(int(v))
        else:
            out.append(BAD)
    return out


def table(a, ncols, conv):
    a = onp.asarray(a)
    if a.ndim != 2:
        return [conv(a)]
    return [conv(r) for r in a]


def observe(case):
    """Build the real DofManager of `case` and log its public attributes / method results as integers.
    case = {mesh: desc, dim, nodeSets: {name: [node]}, bcs: [[set, comp]], tokSeed, jnp}."""
    import jax.numpy as np
    from optimism import FunctionSpace
    from optimism.SparseMatrixAssembler import assemble_sparse_stiffness_matrix  # noqa: F401 (anchor import)
    dim = int(case["dim"])
    if case.get("prior"):
        # history: a DofManager with the same node sets, field count and BC list is first built on another mesh with
        # the same array shapes (what a second analysis in the same process does); the one judged is built after it
        fsp = function_space(case["prior"], case["nodeSets"])
        FunctionSpace.DofManager(fsp, dim, [FunctionSpace.EssentialBC(nodeSet=s, component=int(c)) for s, c in case["bcs"]])
    fs = function_space(case["mesh"], case["nodeSets"])
    conns = onp.asarray(fs.mesh.conns)
    N = int(fs.mesh.coords.shape[0])
    ebcs = [FunctionSpace.EssentialBC(nodeSet=s, component=int(c)) for s, c in case["bcs"]]
    dm = FunctionSpace.DofManager(fs, dim, ebcs)

    # token field: the integers 1..N*dim in a seeded random arrangement
    perm = list(range(1, N * dim + 1))
    random.Random(case["tokSeed"]).shuffle(perm)
    U0 = onp.array(perm, dtype=float).reshape(N, dim)
    U = np.array(U0) if case.get("jnp", True) else U0

    ev, errors = [], []

    def attempt(call, f):
        """one public call; an exception is logged (clause no_exception) and the other calls are still observed"""
        try:
            return f()
        except Exception as ex:
            errors.append([call, "%s: %s" % (type(ex).__name__, ex)])
            return None

    e0 = attempt("attributes/sizes", lambda: dict(
        op="Construct", ui=ints(dm.unknownIndices), bi=ints(dm.bcIndices), ids=table(dm.ids, dim, ints),
        d2u=ints(dm.dofToUnknown), nU=int(dm.get_unknown_size()), nB=int(dm.get_bc_size())))
    if e0 is not None:
        ev.append(e0)
    Uu = attempt("get_unknown_values", lambda: dm.get_unknown_values(U))
    Ubc = attempt("get_bc_values", lambda: dm.get_bc_values(U))
    if Uu is not None and Ubc is not None:
        R = attempt("create_field", lambda: dm.create_field(Uu, Ubc))
        if R is not None:
            ev.append(dict(op="RoundTrip", Uu=toks(Uu), Ubc=toks(Ubc), R=table(R, dim, toks)))
    if Uu is not None:
        for c in range(dim):
            out = attempt("slice_unknowns_with_dof_indices", lambda: toks(dm.slice_unknowns_with_dof_indices(Uu, (slice(None), c))))
            if out is not None:
                ev.append(dict(op="Slice", comp=c, out=out))

    def hess():
        # the assembler pairs kValues[hessian_bc_mask] (row-major over (e, i, j)) with (HessRowCoords, HessColCoords)
        mask = onp.asarray(dm.hessian_bc_mask)
        rows = onp.asarray(dm.HessRowCoords).ravel()
        cols = onp.asarray(dm.HessColCoords).ravel()
        nEl = conns.shape[0]
        if mask.ndim >= 1 and mask.shape[0] == nEl:
            m2 = mask.reshape(nEl, -1).astype(bool)
        else:                                   # not one mask block per element: no entry can be attributed
            m2 = onp.zeros((nEl, 0), dtype=bool)
        cnt = m2.sum(axis=1)
        off = onp.concatenate([[0], onp.cumsum(cnt)])
        out = [dict(op="HessLen", nMask=int(mask.sum()), nRow=int(rows.size), nCol=int(cols.size))]
        for e in range(nEl):
            out.append(dict(op="Hess", e=e + 1, pos=[int(v) for v in onp.flatnonzero(m2[e])],
                            row=ints(rows[off[e]:off[e + 1]]), col=ints(cols[off[e]:off[e + 1]])))
        return out
    ev += attempt("hessian index maps", hess) or []
    mesh = dict(name=case["mesh"].get("name", case["mesh"]["kind"]), N=N, Dim=dim,
                conns=[[int(v) for v in r] for r in conns],
                nodeSets={k: [int(v) for v in vs] for k, vs in case["nodeSets"].items()})
    return dict(mesh=mesh, bcs=[dict(nodeSet=s, component=int(c)) for s, c in case["bcs"]],
                U=[[int(v) for v in r] for r in U0], Uu=toks(Uu) if Uu is not None else [], ev=ev, errors=errors)


def observe_many(cases):
    """Worker entry point (also used in-process).  Returns [trace | {"error": repr}] in order."""
    # the arrays are tiny: one XLA / BLAS thread per worker process (set before jax is first imported there)
    os.environ.setdefault("XLA_FLAGS", "--xla_cpu_multi_thread_eigen=false intra_op_parallelism_threads=1")
    for v in ("OMP_NUM_THREADS", "OPENBLAS_NUM_THREADS", "MKL_NUM_THREADS"):
        os.environ.setdefault(v, "1")
    common.setup_paths()
    out = []
    for c in cases:
        try:
            out.append(observe(c))
        except Exception as ex:            # a public call of the real object raised
            out.append({"error": "%s: %s" % (type(ex).__name__, ex)})
    return out


def shape_key(c):
    ns = c["nodeSets"]
    return (json.dumps(c["mesh"], sort_keys=True), c["dim"], len({(n, k) for s_, k in c["bcs"] for n in ns[s_]}))


def observe_parallel(cases, nproc):
    """Replay in worker processes.  Every jnp scatter/gather is compiled once per array shape and process, so
    cases are ordered by (mesh, Dim, number of declared dofs) and handed out in contiguous blocks."""
    if nproc <= 1 or len(cases) < 400:
        return observe_many(cases)
    import multiprocessing as mp
    # blocks: each random mesh (function-space construction dominates) is a block of its own, scheduled first;
    # the TLC-derived cases follow in contiguous blocks of equal size
    idx_rand, idx_tlc = {}, []
    for i, c in enumerate(cases):
        if c.get("src") == "tlc":
            idx_tlc.append(i)
        else:
            idx_rand.setdefault(json.dumps(c["mesh"], sort_keys=True), []).append(i)
    size = max(1, (len(idx_tlc) + 3 * nproc - 1) // (3 * nproc))
    blocks = list(idx_rand.values()) + [idx_tlc[i:i + size] for i in range(0, len(idx_tlc), size)]
    chunks = [[cases[i] for i in b] for b in blocks]
    try:
        with mp.get_context("spawn").Pool(nproc) as pool:
            parts = pool.map(observe_many, chunks, chunksize=1)
        out = [None] * len(cases)
        for b, p in zip(blocks, parts):
            for i, t in zip(b, p):
                out[i] = t
        return out
    except Exception as ex:                 # pool trouble is not a property failure: fall back
        print("C14: worker pool unavailable (%r), running in-process" % (ex,))
        return observe_many(cases)


def validate_parallel(traces, rep, on_fail, chunk, nproc, label):
    """harness.trace.validate semantics (one TLC run of the trace spec per batch, total verdicts, drift_ clauses
    counted as mechanism drift), with the batches validated by concurrent single-worker TLC processes."""
    import shutil
    from concurrent.futures import ThreadPoolExecutor
    d = common.scratch("c14-" + label)
    parts = [traces[i:i + chunk] for i in range(0, len(traces), chunk)]

    def job(k):
        path = os.path.join(d, "t%d.ndjson" % k)
        with open(path, "w") as f:
            for t in parts[k]:
                f.write(json.dumps(t, separators=(",", ":")) + "\n")
        return tlc.run(TSPEC, TCFG, workers=1, env={"TRACE_FILE": path}, timeout=3600, coverage=False,
                       label="%s-%d" % (label, k))
    try:
        with ThreadPoolExecutor(max_workers=max(1, nproc)) as ex:
            results = list(ex.map(job, range(len(parts))))
    finally:
        shutil.rmtree(d, ignore_errors=True)
    for part, res in zip(parts, results):
        verdicts = res.payloads("VERDICT")
        if not res.ok or not verdicts:
            rep.machinery("trace validation %s failed: %s\n%s" % (TSPEC, res.error_text, tlc.tail(res, 25)))
            continue
        v = verdicts[-1]
        if v.get("n") != len(part):
            rep.machinery("trace validation consumed %s of %d traces" % (v.get("n"), len(part)))
        rep.add_traces(len(part))
        rep.coverage["tlc_runs"].append({"label": "trace:" + TSPEC, "traces": len(part),
                                         "states_generated": res.generated, "wall_s": round(res.wall, 2)})
        for tid, l, clause in v.get("viol", []):
            if clause.startswith("drift_"):
                rep.drift()
                rep.coverage.setdefault("drift_samples", [])
                if len(rep.coverage["drift_samples"]) < 5:
                    rep.coverage["drift_samples"].append([tid, l, clause])
                continue
            on_fail(tid, l, clause)


# ----------------------------------------------------------------------------- case generation
def features(case):
    ns = case["nodeSets"]
    used = [ns[s] for s, _ in case["bcs"]]
    decl = {(n, c) for (s, c) in case["bcs"] for n in ns[s]}
    return dict(mesh_kind=case["mesh"].get("name", case["mesh"]["kind"]), dim=case["dim"], n_bcs=len(case["bcs"]),
                has_empty_set=any(len(u) == 0 for u in used),
                has_repeated_member=any(len(set(u)) < len(u) for u in used),
                has_repeated_bc=len({(s, c) for s, c in case["bcs"]}) < len(case["bcs"]),
                n_declared=len(decl))


def cases_from_tlc(behs, meshes, rng, jnp_every=1):
    cases = []
    for i, b in enumerate(behs):
        mrec = meshes[(b["mesh"], b["dim"])]
        cases.append(dict(mesh=dict(kind="named", name=b["mesh"]), dim=b["dim"], nodeSets=mrec["nodeSets"],
                          bcs=[[x["nodeSet"], x["component"]] for x in b["bcs"]],
                          tokSeed=rng.randrange(1 << 30), jnp=(i % jnp_every == 0), src="tlc"))
    return cases


def mesh_pool(rng, n, big):
    """seeded pool of mesh descriptors: structured (4x5 .. 8x8 when big) and Delaunay meshes, orders 1..3"""
    pool = []
    for k in range(n):
        order = rng.choice([1, 1, 2, 3]) if big else rng.choice([1, 1, 2])
        if k % 2 == 0:
            nx, ny = (rng.randrange(4, 9), rng.randrange(5, 9)) if big else (rng.randrange(2, 5), rng.randrange(2, 6))
            pool.append(dict(kind="structured", nx=nx, ny=ny, order=order))
        else:
            pool.append(dict(kind="delaunay", npts=(rng.randrange(20, 60) if big else rng.randrange(5, 14)),
                             seed=rng.randrange(1000), order=order))
    return pool


def random_case(rng, desc):
    """Random EssentialBC list over a random family of node sets on the mesh `desc`."""
    m = _mesh_cached(desc)
    N = int(m.coords.shape[0])
    coords = onp.asarray(m.coords)
    dim = rng.randrange(1, 4)
    ns = {"empty": [], "all": list(range(N))}
    ns["left"] = [int(i) for i in onp.flatnonzero(coords[:, 0] < 1e-8)]
    ns["top"] = [int(i) for i in onp.flatnonzero(coords[:, 1] > coords[:, 1].max() - 1e-8)]
    for k in range(rng.randrange(2, 6)):
        size = rng.choice([1, 2, 3, max(1, N // 4), max(1, N // 2)])
        ns["s%d" % k] = [rng.randrange(N) for _ in range(size)] if rng.random() < 0.4 \
            else rng.sample(range(N), min(size, N))                  # with / without repeated members
    names = sorted(ns)
    nb = rng.choice([0, 1, 2, 2, 3, 4, 6, 9])
    bcs = [[rng.choice(names), rng.randrange(dim)] for _ in range(nb)]
    if bcs and rng.random() < 0.3:
        bcs.append(list(rng.choice(bcs)))                            # the same BC listed twice
    return dict(mesh=desc, dim=dim, nodeSets=ns, bcs=bcs, tokSeed=rng.randrange(1 << 30), jnp=True, src="random")


_MESH = {}


def _mesh_cached(desc):
    key = json.dumps(desc, sort_keys=True)
    if key not in _MESH:
        _MESH[key] = build_mesh(desc)
    return _MESH[key]


def upstream_case():
    """The input of optimism/test/test_DofManager.py (4x5 mesh, top/0 and right/1)."""
    desc = dict(kind="structured", nx=4, ny=5, order=1)
    c = onp.asarray(_mesh_cached(desc).coords)
    ns = {"top": [int(i) for i in onp.flatnonzero(c[:, 1] > c[:, 1].max() - 1e-8)],
          "right": [int(i) for i in onp.flatnonzero(c[:, 0] > c[:, 0].max() - 1e-8)]}
    return dict(mesh=desc, dim=2, nodeSets=ns, bcs=[["top", 0], ["right", 1]], tokSeed=7, jnp=True, src="upstream-test")


# ----------------------------------------------------------------------------- TLC side
def check_named_meshes(meshes, rep):
    """The connectivity TLC explored must be the connectivity of the real mesh the replay uses."""
    ok = True
    for (name, dim), rec in sorted(meshes.items()):
        m = _mesh_cached(dict(kind="named", name=name))
        real = [[int(v) for v in r] for r in onp.asarray(m.conns)]
        if real != rec["conns"] or int(m.coords.shape[0]) != rec["N"]:
            rep.machinery("mesh %s: spec connectivity %s differs from the real mesh %s" % (name, rec["conns"], real))
            ok = False
    return ok


def tlc_behaviours(rep, tier):
    """(A) design runs + behaviour emission.  Returns (behaviours, mesh records)."""
    fast = os.environ.get("VERIF_C14_FAST") == "1"      # developer knob (mutation loops): tiny mesh family only
    des = tlc.run(GEN, "DofManagerGen_tiny.cfg" if fast else "DofManagerGen_quick.cfg", workers=1 if fast else None,
                  label="design-exhaustive-masks", timeout=1500)
    if tlc.require_ok(des, rep, "design"):
        rep.add_tlc(des)
        for a in ACTIONS:
            if des.action_counts.get(a, 0) == 0:
                rep.machinery("vacuity: design action %s never taken (coverage %s)" % (a, des.action_counts))
    if tier == "thorough":
        big = tlc.run(GEN, "DofManagerGen_big.cfg", label="design-exhaustive-2^18-masks", timeout=3000, coverage=False)
        if tlc.require_ok(big, rep, "design-big"):
            rep.add_tlc(big)
    em = tlc.run(GEN, "DofManagerGen_tiny.cfg" if fast else "DofManagerGen_emit.cfg", workers=1, label="emit-behaviours",
                 timeout=1500, coverage=False)
    if not tlc.require_ok(em, rep, "emit"):
        return [], {}
    rep.add_tlc(em)
    behs = em.payloads("BEH")
    meshes = {}
    for raw in em.payloads("MESH"):
        rec = json.loads(raw) if isinstance(raw, str) else raw
        meshes[(rec["name"], rec["Dim"])] = rec
    if tier == "thorough":
        # simulation mode evaluates EmitT on every successor of every visited state: ~30 BC lists per step
        sim = tlc.run(GEN, "DofManagerGen_sim.cfg", simulate=60, depth=12, seed=common.seed() + 1, label="simulate-2^18",
                      timeout=1500)
        if tlc.require_ok(sim, rep, "simulate"):
            rep.add_tlc(sim)
            sb = sim.payloads("BEH")
            for raw in sim.payloads("MESH"):
                rec = json.loads(raw) if isinstance(raw, str) else raw
                meshes[(rec["name"], rec["Dim"])] = rec
            seen, uniq = set(), []
            for b in sb:
                k = json.dumps(b, sort_keys=True)
                if k not in seen:
                    seen.add(k)
                    uniq.append(b)
            random.Random(common.seed() + 2).shuffle(uniq)
            uniq = uniq[:6000]
            rep.coverage["behaviours_from_simulation"] = len(uniq)
            behs = behs + uniq
    return behs, meshes


def mask_key(case):
    ns = case["nodeSets"]
    return (case["mesh"].get("name") or json.dumps(case["mesh"], sort_keys=True), case["dim"],
            tuple(sorted({n * case["dim"] + c for s, c in case["bcs"] for n in ns[s]})))


# ----------------------------------------------------------------------------- binding self-test
CORRUPTIONS = [
    ("partition", lambda t: t["ev"][0]["ui"].__setitem__(0, t["ev"][0]["bi"][0])),       # an index listed in both
    ("bc_exact", lambda t: (t["ev"][0]["bi"].pop(), t["ev"][0]["ui"].append(t["mesh"]["N"] * t["mesh"]["Dim"] - 1))),
    ("sizes", lambda t: t["ev"][0].__setitem__("nB", t["ev"][0]["nB"] + 1)),
    ("split", lambda t: t["ev"][1]["Uu"].__setitem__(0, t["ev"][1]["Ubc"][0])),
    ("round_trip", lambda t: t["ev"][1]["R"][0].__setitem__(0, 0)),
    ("slice", lambda t: t["ev"][2]["out"].reverse()),
    ("hess_len", lambda t: t["ev"][2 + t["mesh"]["Dim"]].__setitem__("nRow", t["ev"][2 + t["mesh"]["Dim"]]["nRow"] + 1)),
    ("hess_mask", lambda t: t["ev"][3 + t["mesh"]["Dim"]]["pos"].__setitem__(0, 1)),
    ("hess_bag", lambda t: t["ev"][3 + t["mesh"]["Dim"]]["row"].__setitem__(1, t["ev"][3 + t["mesh"]["Dim"]]["row"][0])),
    ("hess_entry", lambda t: t["ev"][3 + t["mesh"]["Dim"]]["row"].reverse()),
]


def binding_selftest(rep):
    """Corrupt one logged field of a valid trace per clause; TLC must reject it naming that clause
    (and accept the uncorrupted trace).  A miss is a machinery error (the trace spec does not bind)."""
    base_case = dict(mesh=dict(kind="named", name="T2"), dim=2,
                     nodeSets={"a": [0], "b": [3, 3]}, bcs=[["a", 0], ["b", 1]], tokSeed=3, jnp=False)
    base = observe_many([base_case])[0]
    if "error" in base or base.get("errors"):
        rep.coverage["binding_selftest"] = "skipped: the real code raised on the reference case (reported as no_exception)"
        return
    base.pop("errors")
    traces = [dict(base, id=1)]
    for k, (clause, f) in enumerate(CORRUPTIONS):
        t = json.loads(json.dumps(base))
        f(t)
        t["id"] = k + 2
        traces.append(t)
    d = common.scratch("c14-selftest")
    path = os.path.join(d, "t.ndjson")
    with open(path, "w") as fh:
        for t in traces:
            fh.write(json.dumps(t, separators=(",", ":")) + "\n")
    res = tlc.run(TSPEC, TCFG, workers=1, env={"TRACE_FILE": path}, coverage=False, label="binding-selftest")
    import shutil
    shutil.rmtree(d, ignore_errors=True)
    v = res.payloads("VERDICT")
    if not res.ok or not v:
        rep.machinery("binding self-test: trace spec failed to run: %s\n%s" % (res.error_text, tlc.tail(res, 15)))
        return
    got = {}
    for tid, l, clause in v[-1]["viol"]:
        if not clause.startswith("drift_"):
            got.setdefault(tid, set()).add(clause)
    if 1 in got:
        # the real code already fails on the reference case: that is reported by the main flow as a violation
        rep.coverage["binding_selftest"] = "skipped: the uncorrupted reference trace is rejected (%s)" % sorted(got[1])
        return
    caught = 0
    for k, (clause, _) in enumerate(CORRUPTIONS):
        if clause in got.get(k + 2, set()):
            caught += 1
        else:
            rep.machinery("binding self-test: corruption aimed at clause %s was not rejected (got %s)"
                          % (clause, sorted(got.get(k + 2, []))))
    rep.coverage["binding_selftest"] = "%d/%d corrupted traces rejected with the intended clause" % (caught, len(CORRUPTIONS))


# ----------------------------------------------------------------------------- main
def main(tier, replay=None):
    common.setup_paths()
    rep = common.Reporter(PID, tier)
    rep.assumptions = [
        "dof id of (node, component) is node*Dim + component (row-major flat index of an (N, Dim) field)",
        "unknown number of a dof = its position in get_unknown_values(U) (token field with distinct entries)",
        "the assembler's pairing kValues[hessian_bc_mask] <-> (HessRowCoords, HessColCoords) attributes "
        "coordinates to elements in row-major mask order (SparseMatrixAssembler.assemble_sparse_stiffness_matrix)",
        "element connectivities list distinct nodes (checked by TypeOK for the design meshes, true of optimism meshes)",
        "token fields are float64 arrays of the integers 1..N*Dim; read back exactly (no tolerance)",
        "components are 0..Dim-1 and node-set members are valid node ids (negative / out-of-range indices not explored)",
        "twin histories: a DofManager is built on mesh A and then, in the same process, on a node-renumbered twin of A "
        "(same shapes, same constraint pattern, different connectivity); the second one is judged",
    ]
    rng = random.Random(common.seed())
    nproc = int(os.environ.get("VERIF_PROCS", str(min(8, os.cpu_count() or 1))))
    t0 = time.time()
    if replay:
        stored = json.load(open(replay))
        case = {k: v for k, v in stored["case"].items() if k in ("mesh", "dim", "nodeSets", "bcs", "tokSeed", "jnp", "src", "prior")}
        cases = [case]
        nstates = 1
    else:
        behs, meshes = tlc_behaviours(rep, tier)
        if behs and not check_named_meshes(meshes, rep):
            behs = []
        cases = cases_from_tlc(behs, meshes, rng, jnp_every=1 if tier == "thorough" else 4)
        cases.sort(key=shape_key)
        states = {mask_key(c) for c in cases}
        nstates = len(states)
        rep.coverage["behaviours_emitted_by_tlc"] = len(behs)
        rep.coverage["distinct_masks_replayed"] = nstates
        want = sum(2 ** (m["N"] * m["Dim"]) for (n, d), m in meshes.items() if m["N"] * m["Dim"] <= 12)
        have = len({k for k in states if meshes[(k[0], k[1])]["N"] * k[1] <= 12})
        rep.coverage["masks_expected_exhaustive"] = want
        if behs and have != want:
            rep.machinery("replay is not exhaustive: %d of %d masks of the small meshes were emitted" % (have, want))
        # genuine runs not derived from TLC: the upstream test's input and random BC lists on larger meshes
        extra = [upstream_case()]
        # (meshes, BC lists per mesh): small meshes, large meshes
        plan = ((8, 5), (3, 2)) if tier == "quick" else ((40, 12), (40, 5))
        for (nmesh, per), big in zip(plan, (False, True)):
            for desc in mesh_pool(rng, nmesh, big):
                extra += [random_case(rng, desc) for _ in range(per)]
        rep.coverage["random_cases"] = len(extra)
        cases += extra
        # histories: the same BC list on a renumbered twin of the mesh, built right after the original in one process
        ntw = 250 if tier == "quick" else 2500
        pick = extra + rng.sample(cases[:len(cases) - len(extra)], min(ntw, len(cases) - len(extra)))
        twins = [dict(c, mesh=dict(c["mesh"], renum=rng.randrange(1000)), prior=c["mesh"], src=c["src"] + "-twin")
                 for c in pick]
        rep.coverage["twin_history_cases"] = len(twins)
        cases += twins
        # distinct = distinct (mesh, Dim, declared mask); non-trivial = the mask is neither empty nor all dofs
        allkeys = {mask_key(c) for c in cases}
        sizes = {}
        for c in cases:
            sizes[mask_key(c)[:2]] = int(_mesh_cached(c["mesh"]).coords.shape[0]) * c["dim"]
        nstates = sum(1 for k in allkeys if 0 < len(k[2]) < sizes[k[:2]])
        rep.coverage["distinct_masks_all_cases"] = len(allkeys)
        binding_selftest(rep)
    t1 = time.time()
    obs = observe_parallel(cases, nproc)
    rep.coverage["replay_wall_s"] = round(time.time() - t1, 1)

    traces, by_id = [], {}
    for i, (c, t) in enumerate(zip(cases, obs)):
        tid = i + 1
        if "error" in t:
            rep.fail("no_exception", dict(c, **features(c)), t["error"])
            continue
        for call, msg in t.pop("errors"):
            rep.fail("no_exception", dict(c, call=call, **features(c)), msg)
        t["id"] = tid
        traces.append(t)
        by_id[tid] = c
        for e in t["ev"]:
            for cl in CLAUSES_BY_OP[e["op"]]:
                rep.count_clause(cl)
    rep.count_clause("no_exception", len(cases))
    if traces:
        mid = traces[len(traces) // 3]
        rep.sample(dict(mesh=mid["mesh"]["name"], dim=mid["mesh"]["Dim"], bcs=mid["bcs"], events=mid["ev"][:3]))
        rep.sample(dict(case={k: by_id[traces[-1]["id"]][k] for k in ("mesh", "dim", "bcs")},
                        n_events=len(traces[-1]["ev"])))
    kinds = {}
    for c in cases:
        f = features(c)
        for k in ("has_empty_set", "has_repeated_member", "has_repeated_bc"):
            kinds[k] = kinds.get(k, 0) + int(f[k])
        kinds["mask_empty"] = kinds.get("mask_empty", 0) + int(f["n_declared"] == 0)
        kinds["jnp_inputs"] = kinds.get("jnp_inputs", 0) + int(bool(c.get("jnp", True)))
    rep.coverage["case_kinds"] = kinds

    def on_fail(tid, l, clause):
        c = dict(by_id[tid], **features(by_id[tid]))
        c["event"] = l
        rep.fail(clause, c)

    # small traces in big batches, large traces (long COO segments) in small batches
    is_small = lambda t: len(t["ev"]) <= 40 and t["mesh"]["N"] * t["mesh"]["Dim"] <= 64
    small = [t for t in traces if is_small(t)]
    large = [t for t in traces if not is_small(t)]
    t2 = time.time()
    if replay:
        trace.validate(TSPEC, TCFG, traces, rep, on_fail=on_fail)
    else:
        if small:
            validate_parallel(small, rep, on_fail, max(500, (len(small) + nproc - 1) // nproc), nproc, "trace-small")
        if large:
            validate_parallel(large, rep, on_fail, 12, nproc, "trace-large")
    rep.coverage["validate_wall_s"] = round(time.time() - t2, 1)

    if replay:
        got = sorted({cl for cl, _, _ in rep.violations})
        print("C14 replay: stored clause %r %s (failing clauses now: %s)" % (
            stored.get("clause"), "REPRODUCED" if stored.get("clause") in got else "not reproduced", got))
    rc = rep.finish(
        rule="quick: every (node, component) mask of meshes T1,T2 (Dim 1..3), T4,Q1 (Dim 1,2), Q2 (Dim 1) is reached by "
             "TLC (VIEW = declared mask) and the EssentialBC list TLC built for it is replayed into the real DofManager, "
             "plus every transition out of lists of length <= 1 (pairs of node sets), the upstream test input and "
             "seeded random BC lists on structured/Delaunay meshes; thorough adds the 2^18-mask design run, simulated "
             "lists on those meshes and more/larger random meshes (orders 1..3). distinct = distinct (mesh, Dim, declared mask) triples over all replayed cases; "
             "non-trivial = the mask is neither empty nor all dofs",
        extra={"distinct_nontrivial": nstates, "wall_generate_s": round(t1 - t0, 1)},
        exhaustive=(replay is None))
    return rc


if __name__ == "__main__":
    sys.exit(main(common.tier()))
