"""X10 (extension, not a listed property) — which matrix Objective.update_precond ends up factorizing, for an Objective
without a strategy (dense Hessian), with PrecondStrategy and with TwoTryPrecondStrategy (PrecondStrategy.tla = Objective.py's
strategies composed with the SparseCholesky retry ladder).  TLC enumerates (strategy, f1 positive definite?, first shift that
makes K positive definite); each is realised with 2x2 matrices [[1, a], [a, 1]] (positive definite after a shift s iff
1 + s > a) on the REAL Objective / strategies / SparseCholesky; the attempts asked of the strategy and the matrix finally
held by objective.precond are classified and judged by PrecondStrategyTrace.tla."""
import json
import random
import sys

import numpy as onp

from harness import common, tlc, trace
from harness.proxies import Silence

PID = "X10"


def a_for(k, maxatt):
    """off-diagonal entry a of K = [[1, a], [a, 1]] such that the smallest attempt index whose shift 10^(k-5) makes
    K + shift*|diag K| positive definite is k (0: K itself; maxatt+1: none below the cap)."""
    if k == 0:
        return 0.5
    lo = 0.0 if k == 1 else 10.0 ** (k - 1 - 5)
    hi = 10.0 ** (k - 5) if k <= maxatt else 10.0 ** (maxatt - 5) * 20
    return 1.0 + 0.5 * (lo + hi) if k <= maxatt else 1.0 + hi


def classify(A, K, F1):
    A = onp.asarray(A.todense()) if hasattr(A, "todense") else onp.asarray(A)
    if onp.allclose(A, onp.eye(2), rtol=0, atol=1e-14):
        return ["identity", 0]
    if F1 is not None and onp.allclose(A, F1, rtol=1e-14, atol=0):
        return ["f1", 0]
    if onp.allclose(A, K, rtol=1e-14, atol=0):
        return ["K", 0]
    d = A - K
    s = d[0, 0]
    if s > 0 and abs(d[1, 1] - s) <= 1e-12 * s and abs(d[0, 1]) <= 1e-14:
        e = int(round(onp.log10(s)))
        if abs(s - 10.0 ** e) <= 1e-9 * s:
            return ["shifted", e]
    return ["unknown", 0]


def run_case(b, rng, tid):
    import jax.numpy as np
    from scipy.sparse import csc_matrix
    from optimism import Objective
    a = a_for(int(b["kStar"]), 10)
    K = onp.array([[1.0, a], [a, 1.0]])
    F1 = onp.array([[3.0, 0.25], [0.25, 2.0]]) if b["f1Spd"] else onp.array([[1.0, 4.0], [4.0, 1.0]])
    x = np.array([0.3, -0.2])
    p = Objective.Params()
    f = lambda x, p: 0.5 * x @ np.array(K) @ x
    requested = []
    if b["strat"] == "dense":
        obj = Objective.Objective(f, x, p)
        strat = None
    elif b["strat"] == "single":
        strat = Objective.PrecondStrategy(lambda x, p: csc_matrix(K))
        obj = Objective.Objective(f, x, p, strat)
    else:
        strat = Objective.TwoTryPrecondStrategy(lambda x, p: csc_matrix(F1), lambda x, p: csc_matrix(K))
        obj = Objective.Objective(f, x, p, strat)
    if strat is not None:
        orig = strat.precond_at_attempt

        def logged(attempt):
            M = orig(attempt)
            requested.append(classify(M, K, F1 if b["strat"] == "twoTry" else None))
            return M
        strat.precond_at_attempt = logged
    with Silence():
        obj.update_precond(x)
    final = classify(obj.precond.A, K, F1 if b["strat"] == "twoTry" else None)
    rhs = onp.array([rng.uniform(-1, 1), rng.uniform(-1, 1)])
    z = onp.asarray(obj.apply_precond(rhs))
    A = onp.asarray(obj.precond.A.todense())
    applies = bool(onp.allclose(A @ z, rhs, rtol=1e-10, atol=1e-12))
    exp_req = [[q[0], int(q[1])] for q in b["requested"]]
    return dict(id=tid, strat=b["strat"], f1Spd=bool(b["f1Spd"]), kStar=int(b["kStar"]), exp_requested=exp_req,
                exp_final=[b["final"][0], int(b["final"][1])],
                requested=requested if strat is not None else exp_req,      # the dense path builds its matrices in a closure
                final=final, applies=applies)


def main(tier, replay=None):
    common.setup_paths()
    rep = common.Reporter(PID, tier)
    rep.assumptions = ["dense sksparse shim provides the Cholesky factor (raises the not-positive-definite error like CHOLMOD)",
                       "extension beyond the listed properties: not registered in MANIFEST.json",
                       "the requests of the strategy-less (dense Hessian) path are not observable (closure inside update_precond): "
                       "only its final matrix is judged"]
    rng = random.Random(common.seed())
    traces, cases = [], {}
    if replay:
        c = json.load(open(replay))["case"]
        traces.append(run_case(c, rng, 1)); cases[1] = c
    else:
        des = tlc.run("PrecondStrategy.tla", "PrecondStrategy.cfg", workers=1, label="design")
        tlc.require_ok(des, rep, "design")
        rep.add_tlc(des)
        for i, b in enumerate(des.payloads("BEH")):
            traces.append(run_case(b, rng, i + 1)); cases[i + 1] = b
    for c in ("final_is_first_positive_definite", "apply_solves_with_final"):
        rep.count_clause(c, len(traces))
    if traces:
        rep.sample(traces[len(traces) // 2])
    trace.validate("PrecondStrategyTrace.tla", "PrecondStrategyTrace.cfg", traces, rep,
                   on_fail=lambda tid, l, clause: rep.fail(clause, cases[tid]))
    return rep.finish(rule="every (strategy, f1 definite?, first sufficient shift) enumerated by TLC, realised on the real Objective",
                      extra={"distinct_nontrivial": len(traces)}, exhaustive=True)


if __name__ == "__main__":
    sys.exit(main(common.tier()))
