"""C13 — mesh construction, merging, reading and order elevation keep meshes valid.

(A) TLC checks MeshTopology.tla exhaustively: every triangle mesh that Attach/RotateElement can build
    (<= MaxTri triangles, <= MaxVerts vertices, plus structured patches and a 6-triangle ring around
    a hole, all cyclic rotations of the element vertex order), and on each the operational model of
    create_edges / order elevation / combine_mesh / the readers against the declarative predicates.
    The same run prints the catalogue of meshes with their topological situation.
(B) Catalogue meshes are embedded in the plane (integer coordinates, exact orientation tests) and fed
    to the REAL Mesh.create_edges and create_higher_order_mesh_from_simplex_mesh.
(C) Real runs (structured generator of many sizes, seeded Delaunay meshes, plates with holes, annuli,
    random element rotations, orders 2..5 with/without bubble, combine_mesh with disjoint and clashing
    names, Exodus files written by the harness with netCDF4, JSON files, the upstream test files) are
    abstracted to integer tables / comparison codes and judged by MeshTopologyTrace.tla.
Python only abstracts; every comparison with the property is evaluated by TLC.
"""
import json
import os
import random
import shutil
import sys
import time
from fractions import Fraction

import numpy as onp

from harness import common, tlc, trace

PID = "C13"
TLC_ENV = {"JAVA_TOOL_OPTIONS": "-Xmx3g"}
PLACE_RTOL = 1e-12       # |node - affine image| <= PLACE_RTOL * max(h, |X|max) per element
COINCIDE_RTOL = 1e-9     # two nodes "coincide" when closer than this times the mesh diameter
ALL_ELEV = [(2, False), (2, True), (3, False), (3, True), (4, False), (4, True), (5, False), (5, True)]

VALID = ["conn_in_range", "all_nodes_used", "ccw_positive_area", "blocks_exist", "nodesets_exist", "sidesets_exist"]
CLAUSES = {
    "Structured": VALID + ["edges_manifold"],
    "Edges": ["edge_once", "left_adjacent", "right_adjacent", "boundary_ccw"],
    "Elevate": VALID + ["affine_placement", "edge_nodes_shared", "no_duplicate_nodes", "node_positions_unique",
                        "no_unused_nodes", "node_count"],
    "Merge": VALID + ["merge_conn", "merge_no_loss", "merge_no_extra"],
    "Read": VALID + ["read_elements", "read_blocks", "read_nodesets", "read_sidesets", "affine_placement",
                     "no_duplicate_nodes"],
}
DESIGN_ACTIONS = ["Structured", "Ring", "Attach", "Rotate", "edges", "ho", "merged", "read"]


# ----------------------------------------------------------------------------- exact planar geometry
def _fr(p):
    return Fraction(float(p[0])), Fraction(float(p[1]))


def orient(p, q, r):
    """Exact sign (+1/0/-1) of the signed area of (p,q,r); floats are converted to rationals."""
    (px, py), (qx, qy), (rx, ry) = _fr(p), _fr(q), _fr(r)
    d = (qx - px) * (ry - py) - (qy - py) * (rx - px)
    return (d > 0) - (d < 0)


def area_code(p, q, r):
    return {1: "GT", 0: "EQ", -1: "LT"}[orient(p, q, r)]


def tri_overlap(t1, t2, pts):
    """Interiors of two counter-clockwise triangles intersect (separating-axis test, exact)."""
    for a, b in ((t1, t2), (t2, t1)):
        for s in range(3):
            p, q = pts[a[s]], pts[a[(s + 1) % 3]]
            if all(orient(p, q, pts[v]) <= 0 for v in b):
                return False
    return True


def embed(conns, rng, span=13):
    """Integer coordinates making every triangle counter-clockwise, no two triangles overlapping and no
    three vertices collinear (so that no two nodes of an elevated mesh can coincide by accident).
    Returns {vertex: (x, y)} or None."""
    for _ in range(300):
        pts, placed, ok = {}, [], True
        for tri in conns:
            new = [v for v in tri if v not in pts]
            done = False
            for _t in range(80 if new else 1):
                trial = dict(pts)
                for v in new:
                    trial[v] = (rng.randrange(span), rng.randrange(span))
                if len(set(trial.values())) < len(trial):
                    continue
                if orient(trial[tri[0]], trial[tri[1]], trial[tri[2]]) <= 0:
                    continue
                vs = list(trial)
                if new and any(orient(trial[a], trial[b], trial[c]) == 0
                               for i, a in enumerate(vs) for j, b in enumerate(vs[i + 1:], i + 1)
                               for c in vs[j + 1:] if (a in new or b in new or c in new)):
                    continue
                if any(tri_overlap(tri, t, trial) for t in placed):
                    continue
                pts, done = trial, True
                break
            if not done:
                ok = False
                break
            placed.append(tri)
        if ok:
            return pts
    return None


RING_COORDS = [(0, 0), (12, 0), (6, 12), (6, 1), (8, 5), (4, 5)]


# ----------------------------------------------------------------------------- alpha: real objects -> integers
def ilist(a):
    return [int(x) for x in onp.asarray(a).reshape(-1)]


def ilist2(a):
    a = onp.asarray(a)
    if a.size == 0:
        return []
    return [[int(x) for x in row] for row in a.reshape(a.shape[0], -1)]


def abs_sets(d, side=False):
    if d is None:
        return []
    out = []
    for name, val in d.items():
        a = onp.asarray(val)
        if side:
            mem = [[int(r[0]), int(r[1])] for r in a.reshape(-1, 2)] if a.size else []
        else:
            mem = ilist(a)
        out.append({"name": str(name), "mem": mem})
    return out


def abs_mesh(mesh):
    coords = onp.asarray(mesh.coords, dtype=float)
    conns = onp.asarray(mesh.conns)
    if conns.ndim != 2 or coords.ndim != 2 or coords.shape[1] != 2:
        raise ValueError("malformed mesh arrays %s %s" % (coords.shape, conns.shape))
    vn = onp.asarray(mesh.parentElement.vertexNodes)
    vtx = conns[:, vn]
    n = coords.shape[0]
    area = []
    for t in vtx:
        if all(0 <= int(i) < n for i in t):
            area.append(area_code(coords[t[0]], coords[t[1]], coords[t[2]]))
        else:
            area.append("EQ")
    return dict(nN=int(n), conns=ilist2(conns), vtx=ilist2(vtx), area=area,
                blocks=abs_sets(mesh.blocks), nodeSets=abs_sets(mesh.nodeSets),
                sideSets=abs_sets(mesh.sideSets, side=True), simplex=ilist(mesh.simplexNodesOrdinals))


def roles_of(pe, tol=1e-12):
    """Role of every local node, from the reference coordinates alone: vertex i (barycentric coordinate i
    equals 1), on side s (coordinate of the opposite vertex is 0) ordered from vertex s to s+1, interior."""
    X = onp.asarray(pe.coordinates, dtype=float)
    bary = onp.column_stack([X[:, 0], X[:, 1], 1.0 - X[:, 0] - X[:, 1]])
    v, f, inner = [None] * 3, [[], [], []], []
    for j, b in enumerate(bary):
        big = [i for i in range(3) if b[i] >= 1.0 - tol]
        if big:
            v[big[0]] = j
            continue
        zero = [i for i in range(3) if abs(b[i]) <= tol]
        if zero:
            s = (zero[0] + 1) % 3
            f[s].append((float(b[(s + 1) % 3]), j))
        else:
            inner.append(j)
    if any(x is None for x in v):
        raise ValueError("reference element has no node at a vertex")
    return {"v": v, "f": [[j for _, j in sorted(fs)] for fs in f], "in": inner,
            "fv": [[v[s], v[(s + 1) % 3]] for s in range(3)]}


def lib_roles(pe):
    fn = onp.asarray(pe.faceNodes)
    return {"v": ilist(pe.vertexNodes), "f": [ilist(fn[s][1:-1]) for s in range(3)], "in": ilist(pe.interiorNodes),
            "fv": [[int(fn[s][0]), int(fn[s][-1])] for s in range(3)]}


def placement(P, coords, conns, ref):
    """place[e]: every node of element e is within PLACE_RTOL*scale of the affine image of its reference
    node; P (nT,3,2) are the coordinates of the three vertices the element is built on."""
    coords = onp.asarray(coords, dtype=float)
    conns = onp.asarray(conns)
    ref = onp.asarray(ref, dtype=float)
    nT = conns.shape[0]
    if P.shape[0] != nT or conns.shape[1] != ref.shape[0]:
        return [False] * nT
    out = []
    xi, eta = ref[:, 0], ref[:, 1]
    for e in range(nT):
        c = conns[e]
        if c.min() < 0 or c.max() >= coords.shape[0]:
            out.append(False)
            continue
        img = onp.outer(xi, P[e, 0]) + onp.outer(eta, P[e, 1]) + onp.outer(1.0 - xi - eta, P[e, 2])
        h = max(onp.abs(P[e, a] - P[e, b]).max() for a, b in ((0, 1), (1, 2), (2, 0)))
        scale = max(h, onp.abs(P[e]).max())
        out.append(bool(onp.abs(coords[c] - img).max() <= PLACE_RTOL * scale))
    return out


def coincident(coords):
    c = onp.asarray(coords, dtype=float)
    if len(c) < 2:
        return []
    H = float(onp.linalg.norm(c.max(axis=0) - c.min(axis=0))) or 1.0
    D = onp.sqrt(((c[:, None, :] - c[None, :, :]) ** 2).sum(axis=2))
    idx = onp.argwhere(onp.triu(D <= COINCIDE_RTOL * H, 1))
    return [[int(i), int(j)] for i, j in idx]


# ----------------------------------------------------------------------------- drivers of the real code
def lin_mesh(spec):
    from optimism import Mesh
    import jax.numpy as np
    coords = np.array(spec["coords"], dtype=float)
    conns = np.array(spec["conns"], dtype=int)

    def conv(d, side=False):
        if d is None:
            return None
        out = {}
        for k, v in d.items():
            if side:
                out[k] = np.array(v, dtype=int).reshape(-1, 2) if len(v) else np.array([])
            else:
                out[k] = np.array(v, dtype=int)
        return out
    return Mesh.construct_mesh_from_basic_data(coords, conns, conv(spec.get("blocks")), conv(spec.get("nodeSets")),
                                               conv(spec.get("sideSets"), side=True))


def ev_edges(conns):
    from optimism import Mesh
    ec, et = Mesh.create_edges(conns)
    return dict(op="Edges", vtx=ilist2(conns), ec=ilist2(ec), et=ilist2(et))


def ev_elevate(smesh, p, bubble, H=None, opt=0):
    """opt 1: copyNodeSets=True, opt 2: createNodeSetsFromSideSets=True (node sets of the result are then
    subject to nodesets_exist)."""
    from optimism import Mesh
    if H is None:
        H = Mesh.create_higher_order_mesh_from_simplex_mesh(smesh, p, useBubbleElement=bubble, copyNodeSets=(opt == 1),
                                                            createNodeSetsFromSideSets=(opt == 2))
    pe = H.parentElement
    sc = onp.asarray(smesh.coords, dtype=float)
    P = sc[onp.asarray(smesh.conns)]
    ev = dict(op="Elevate", p=int(p), bubble=bool(bubble), S=abs_mesh(smesh), H=abs_mesh(H), roles=roles_of(pe),
              lib=lib_roles(pe), place=placement(P, H.coords, H.conns, pe.coordinates),
              coincident=coincident(H.coords))
    if onp.asarray(H.conns).shape[1] != onp.asarray(pe.coordinates).shape[0]:
        raise ValueError("connectivity width differs from the parent element")
    return H, ev


def ev_merge(mA, mB):
    from optimism import Mesh
    import jax.numpy as np
    dA, dB = np.zeros(mA.coords.shape), np.ones(mB.coords.shape)
    R, disp = Mesh.combine_mesh((mA, dA), (mB, dB))
    kept = bool(onp.array_equal(onp.asarray(R.coords), onp.vstack((onp.asarray(mA.coords), onp.asarray(mB.coords))))
                and onp.array_equal(onp.asarray(disp), onp.vstack((onp.asarray(dA), onp.asarray(dB)))))
    return R, dict(op="Merge", A=abs_mesh(mA), B=abs_mesh(mB), R=abs_mesh(R), coordsKept=kept)


# ---- files written by the harness
def write_exodus(path, spec):
    """spec: coords, elemType 'TRI3'|'TRI6', blocks [{name, conn (0-based, Exodus node order)}],
    nodeSets [{name, mem}], sideSets [{name, mem [[e,s]]}], elemMap bool."""
    import netCDF4
    ds = netCDF4.Dataset(path, "w", format="NETCDF3_64BIT_OFFSET")
    try:
        coords = onp.array(spec["coords"], dtype=float)
        nel = sum(len(b["conn"]) for b in spec["blocks"])
        ds.createDimension("len_name", 33)
        ds.createDimension("num_dim", 2)
        ds.createDimension("num_nodes", coords.shape[0])
        ds.createDimension("num_elem", nel)
        ds.createDimension("num_el_blk", len(spec["blocks"]))
        ds.createVariable("coordx", "f8", ("num_nodes",))[:] = coords[:, 0]
        ds.createVariable("coordy", "f8", ("num_nodes",))[:] = coords[:, 1]

        def names(var, dim, items):
            v = ds.createVariable(var, "S1", (dim, "len_name"))
            for i, it in enumerate(items):
                if it["name"]:
                    v[i, :len(it["name"])] = onp.array([ch.encode("ascii") for ch in it["name"]], dtype="S1")
        names("eb_names", "num_el_blk", spec["blocks"])
        for i, b in enumerate(spec["blocks"]):
            conn = onp.array(b["conn"], dtype="i4")
            ds.createDimension("num_el_in_blk%d" % (i + 1), conn.shape[0])
            ds.createDimension("num_nod_per_el%d" % (i + 1), conn.shape[1])
            v = ds.createVariable("connect%d" % (i + 1), "i4", ("num_el_in_blk%d" % (i + 1), "num_nod_per_el%d" % (i + 1)))
            v.elem_type = spec["elemType"]
            v[:] = conn + 1
        if spec["nodeSets"]:
            ds.createDimension("num_node_sets", len(spec["nodeSets"]))
            names("ns_names", "num_node_sets", spec["nodeSets"])
            for i, s in enumerate(spec["nodeSets"]):
                ds.createDimension("num_nod_ns%d" % (i + 1), len(s["mem"]))
                ds.createVariable("node_ns%d" % (i + 1), "i4", ("num_nod_ns%d" % (i + 1),))[:] = onp.array(s["mem"], dtype="i4") + 1
        if spec["sideSets"]:
            ds.createDimension("num_side_sets", len(spec["sideSets"]))
            names("ss_names", "num_side_sets", spec["sideSets"])
            for i, s in enumerate(spec["sideSets"]):
                mem = onp.array(s["mem"], dtype="i4").reshape(-1, 2)
                ds.createDimension("num_side_ss%d" % (i + 1), mem.shape[0])
                ds.createVariable("elem_ss%d" % (i + 1), "i4", ("num_side_ss%d" % (i + 1),))[:] = mem[:, 0] + 1
                ds.createVariable("side_ss%d" % (i + 1), "i4", ("num_side_ss%d" % (i + 1),))[:] = mem[:, 1] + 1
        if spec.get("elemMap"):
            ds.createVariable("elem_num_map", "i4", ("num_elem",))[:] = onp.arange(nel, dtype="i4") * 3 + 7
    finally:
        ds.close()


def raw_exodus(path):
    """Independent reading of the tables of an Exodus file (numbers as stored, 1-based)."""
    import netCDF4
    with netCDF4.Dataset(path) as ds:
        ds.set_auto_mask(False)

        def names(var, n):
            if var not in ds.variables:
                return [""] * n
            out = []
            for row in ds.variables[var][:]:
                out.append("".join(ch.decode("utf-8") for ch in row if ch not in (b"", b"\x00")).strip())
            return out
        nb = len(ds.dimensions["num_el_blk"])
        bn = names("eb_names", nb)
        F = dict(base=1, blocks=[], nodeSets=[], sideSets=[])
        for i in range(nb):
            F["blocks"].append(dict(name=bn[i], conn=ilist2(ds.variables["connect%d" % (i + 1)][:])))
        if "num_node_sets" in ds.dimensions:
            n = len(ds.dimensions["num_node_sets"])
            nn = names("ns_names", n)
            for i in range(n):
                F["nodeSets"].append(dict(name=nn[i], mem=ilist(ds.variables["node_ns%d" % (i + 1)][:])))
        if "num_side_sets" in ds.dimensions:
            n = len(ds.dimensions["num_side_sets"])
            sn = names("ss_names", n)
            for i in range(n):
                F["sideSets"].append(dict(name=sn[i], el=ilist(ds.variables["elem_ss%d" % (i + 1)][:]),
                                          sd=ilist(ds.variables["side_ss%d" % (i + 1)][:])))
        coords = onp.column_stack([onp.asarray(ds.variables["coordx"][:], dtype=float),
                                   onp.asarray(ds.variables["coordy"][:], dtype=float)])
    return F, coords


def write_json_mesh(path, spec):
    d = dict(coordinates=[[float(x), float(y)] for x, y in spec["coords"]],
             connectivity=[list(map(int, c)) for b in spec["blocks"] for c in b["conn"]],
             nodeSets={s["name"]: list(map(int, s["mem"])) for s in spec["nodeSets"]},
             sideSets={s["name"]: [[int(r[0]) for r in s["mem"]], [int(r[1]) for r in s["mem"]]] for s in spec["sideSets"]})
    with open(path, "w") as f:
        json.dump(d, f)


def raw_json(path):
    d = json.load(open(path))
    F = dict(base=0, blocks=[dict(name="", conn=[list(map(int, c)) for c in d["connectivity"]])],
             nodeSets=[dict(name=k, mem=list(map(int, v))) for k, v in d["nodeSets"].items()],
             sideSets=[dict(name=k, el=list(map(int, v[0])), sd=list(map(int, v[1]))) for k, v in d["sideSets"].items()])
    return F, onp.array(d["coordinates"], dtype=float)


def ev_read(path, fmt):
    if fmt == "json":
        from optimism import ReadMesh
        R = ReadMesh.read_json_mesh(path)
        F, fcoords = raw_json(path)
    else:
        from optimism import ReadExodusMesh
        R = ReadExodusMesh.read_exodus_mesh(path)
        F, fcoords = raw_exodus(path)
    pe = R.parentElement
    roles = roles_of(pe)
    rc = onp.asarray(R.coords, dtype=float)
    conns = onp.asarray(R.conns)
    ok = conns.size > 0 and conns.min() >= 0 and conns.max() < rc.shape[0] and conns.shape[1] == onp.asarray(pe.coordinates).shape[0]
    if ok:
        P = rc[conns[:, roles["v"]]]
        place = placement(P, rc, conns, pe.coordinates)
    else:
        place = [False] * conns.shape[0]
    ev = dict(op="Read", fmt=fmt, F=F, R=abs_mesh(R), hasBlocks=R.blocks is not None, roles=roles, place=place,
              coincident=coincident(rc), coordsExact=bool(rc.shape == fcoords.shape and onp.array_equal(rc, fcoords)))
    return R, ev


# ----------------------------------------------------------------------------- scenarios (one case = one trace)
def run_case(case, work):
    """Execute one case on the real code; returns the list of abstract events."""
    from optimism import Mesh
    sc = case["scenario"]
    evs = []
    if sc == "structured":
        nx, ny, xe, ye = case["nx"], case["ny"], case["xe"], case["ye"]
        m = Mesh.construct_structured_mesh(nx, ny, xe, ye)
        xs, ys = onp.linspace(xe[0], xe[1], nx), onp.linspace(ye[0], ye[1], ny)
        grid = onp.array([[xs[i], ys[j]] for j in range(ny) for i in range(nx)])
        c = onp.asarray(m.coords)
        ev = dict(op="Structured", nx=nx, ny=ny, M=abs_mesh(m), gridOk=bool(c.shape == grid.shape and onp.abs(c - grid).max() <= 1e-12 * max(1.0, onp.abs(grid).max())))
        evs.append(ev)
        evs.append(ev_edges(m.conns))
        for p, b in case.get("elev", []):
            H = Mesh.construct_structured_mesh(nx, ny, xe, ye, elementOrder=p, useBubbleElement=b)
            evs.append(ev_elevate(m, p, b, H=H)[1])
    elif sc == "mesh":
        m = lin_mesh(dict(coords=case["coords"], conns=case["conns"], blocks={"block_0": list(range(len(case["conns"])))}))
        if case.get("edges", True):
            evs.append(ev_edges(m.conns))
        for p, b in case.get("elev", []):
            evs.append(ev_elevate(m, p, b)[1])
    elif sc == "merge":
        mA, mB = lin_mesh(case["A"]), lin_mesh(case["B"])
        R, ev = ev_merge(mA, mB)
        evs.append(ev)
        if case.get("edges"):
            evs.append(ev_edges(R.conns))
        for el in case.get("elev", []):
            evs.append(ev_elevate(R, el[0], el[1], opt=(el[2] if len(el) > 2 else 0))[1])
    elif sc == "read":
        if "path" in case:
            path = case["path"]
        else:
            path = os.path.join(work, "m%d.%s" % (os.getpid(), "json" if case["fmt"] == "json" else "exo"))
            if os.path.exists(path):
                os.remove(path)
            (write_json_mesh if case["fmt"] == "json" else write_exodus)(path, case["file"])
        R, ev = ev_read(path, case["fmt"])
        evs.append(ev)
        if case.get("edges"):
            vtx = onp.asarray(R.conns)[:, onp.asarray(R.parentElement.vertexNodes)]
            evs.append(ev_edges(vtx))
    else:
        raise ValueError("unknown scenario " + sc)
    return evs


# ----------------------------------------------------------------------------- input families
def rotate_elements(conns, rng):
    out = []
    for t in conns:
        k = rng.randrange(3)
        out.append([int(x) for x in (list(t[k:]) + list(t[:k]))])
    return out


def compact(coords, conns):
    used = sorted({int(v) for t in conns for v in t})
    rn = {v: i for i, v in enumerate(used)}
    return [list(map(float, coords[v])) for v in used], [[rn[int(v)] for v in t] for t in conns]


def delaunay_mesh(n, rng, hole=False):
    from scipy.spatial import Delaunay
    hole = hole and n >= 8
    for _ in range(100):
        pts = set()
        while len(pts) < n:
            pts.add((rng.randrange(13), rng.randrange(13)))
        pts = sorted(pts)
        rng.shuffle(pts)
        try:
            tri = Delaunay(onp.array(pts, dtype=float))
        except Exception:
            continue
        conns = []
        for s in tri.simplices:
            s = [int(v) for v in s]
            o = orient(pts[s[0]], pts[s[1]], pts[s[2]])
            if o == 0:
                conns = None
                break
            conns.append(s if o > 0 else [s[0], s[2], s[1]])
        if not conns:
            continue
        if hole:
            # remove the triangles around the most interior vertex: a hole bounded by its link
            cen = onp.mean(onp.array(pts, dtype=float), axis=0)
            v0 = min(range(n), key=lambda v: (pts[v][0] - cen[0]) ** 2 + (pts[v][1] - cen[1]) ** 2)
            kept = [t for t in conns if v0 not in t]
            if len(kept) < 3 or len(kept) == len(conns):
                continue
            conns = kept
        coords, conns = compact(pts, conns)
        return coords, conns
    if hole:
        return delaunay_mesh(n, rng, hole=False)
    raise RuntimeError("no Delaunay mesh found")


def plate_with_hole(nx, ny, rng):
    """Structured nx x ny lattice with the cells of a centred rectangle removed."""
    coords = [[float(i), float(j)] for j in range(ny) for i in range(nx)]
    conns = []
    hx0 = (nx - 2) // 2
    hx1 = hx0 + (2 if (nx - 1) % 2 == 0 else 1)
    hy0 = (ny - 2) // 2
    hy1 = hy0 + (2 if (ny - 1) % 2 == 0 else 1)
    for ey in range(ny - 1):
        for ex in range(nx - 1):
            if hx0 <= ex < hx1 and hy0 <= ey < hy1:
                continue
            a, b, c, d = ex + nx * ey, ex + 1 + nx * ey, ex + 1 + nx * (ey + 1), ex + nx * (ey + 1)
            if rng.randrange(2):
                conns += [[a, b, c], [a, c, d]]
            else:
                conns += [[a, b, d], [b, c, d]]
    return compact(coords, conns)


def annulus(k):
    import math
    co = [[2.0 * math.cos(2 * math.pi * i / k), 2.0 * math.sin(2 * math.pi * i / k)] for i in range(k)]
    ci = [[1.0 * math.cos(2 * math.pi * (i + 0.3) / k), 1.0 * math.sin(2 * math.pi * (i + 0.3) / k)] for i in range(k)]
    coords = co + ci
    conns = []
    for i in range(k):
        j = (i + 1) % k
        conns += [[i, j, k + i], [j, k + j, k + i]]
    assert all(orient(coords[t[0]], coords[t[1]], coords[t[2]]) > 0 for t in conns)
    return coords, conns


def with_sets(coords, conns, postfix, blockname, rng, none_sets=False, shift=0.0):
    """Linear mesh spec with MeshFixture-like sets; side sets come from the real Surface.create_edges."""
    from optimism import Surface
    import jax.numpy as np
    c = onp.array(coords, dtype=float) + onp.array([shift, 0.0])
    t = onp.array(conns, dtype=int)
    spec = dict(coords=c.tolist(), conns=t.tolist(), blocks={blockname: list(range(len(conns)))})
    if none_sets:
        spec["nodeSets"], spec["sideSets"] = None, None
        return spec
    xmin, xmax, ymin, ymax = c[:, 0].min(), c[:, 0].max(), c[:, 1].min(), c[:, 1].max()
    tol = 1e-8
    preds = {"left": lambda x: x[:, 0] < xmin + tol, "right": lambda x: x[:, 0] > xmax - tol,
             "bottom": lambda x: x[:, 1] < ymin + tol, "top": lambda x: x[:, 1] > ymax - tol}
    spec["nodeSets"] = {k + postfix: [int(i) for i in onp.flatnonzero(f(c))] for k, f in preds.items()}
    jc, jt = np.array(c), np.array(t)
    spec["sideSets"] = {}
    for k, f in preds.items():
        e = Surface.create_edges(jc, jt, lambda xy, f=f: np.all(np.array(f(onp.asarray(xy)))))
        spec["sideSets"][k + postfix] = ilist2(e) if onp.asarray(e).size else []
    return spec


def tri6_file(coords, conns, rng, permute=True):
    """Independent quadratic mesh in Exodus node order [v0,v1,v2,m01,m12,m20], node numbers shuffled."""
    coords = [list(map(float, c)) for c in coords]
    edges, conn6 = {}, []
    for t in conns:
        mids = []
        for s in range(3):
            a, b = int(t[s]), int(t[(s + 1) % 3])
            key = (min(a, b), max(a, b))
            if key not in edges:
                edges[key] = len(coords)
                coords.append([(coords[a][0] + coords[b][0]) / 2.0, (coords[a][1] + coords[b][1]) / 2.0])
            mids.append(edges[key])
        conn6.append([int(t[0]), int(t[1]), int(t[2])] + mids)
    n = len(coords)
    perm = list(range(n))
    if permute:
        rng.shuffle(perm)           # new number of old node i is perm[i]
    newc = [None] * n
    for i, pnew in enumerate(perm):
        newc[pnew] = coords[i]
    return newc, [[perm[v] for v in c] for c in conn6], perm


def file_spec(coords, conns, rng, fmt, nblocks, named, elem_map=False):
    """File spec with blocks (contiguous element ranges), boundary node/side sets."""
    nT = len(conns)
    if fmt == "exo6":
        fcoords, fconn, perm = tri6_file(coords, conns, rng)
    else:
        fcoords, fconn, perm = [list(map(float, c)) for c in coords], [list(map(int, c)) for c in conns], list(range(len(coords)))
    cuts = sorted(rng.sample(range(1, nT), min(nblocks - 1, nT - 1))) if nblocks > 1 and nT > 1 else []
    bounds = [0] + cuts + [nT]
    bname = lambda i: ("blk_%d" % i) if named == "all" or (named == "mixed" and i % 2 == 0) else ""
    blocks = [dict(name=bname(i), conn=fconn[bounds[i]:bounds[i + 1]]) for i in range(len(bounds) - 1)]
    # boundary sides, declaratively: directed sides whose opposite is absent
    d = {(int(t[s]), int(t[(s + 1) % 3])) for t in conns for s in range(3)}
    bsides = [[e, s] for e, t in enumerate(conns) for s in range(3) if (int(t[(s + 1) % 3]), int(t[s])) not in d]
    rng.shuffle(bsides)
    half = max(1, len(bsides) // 2)
    sname = lambda i, base: base if named == "all" or (named == "mixed" and i % 2 == 0) else ""
    sideSets = [dict(name=sname(0, "ss_a"), mem=bsides[:half])]
    if len(bsides) > half:
        sideSets.append(dict(name=sname(1, "ss_b"), mem=bsides[half:]))
    bnodes = sorted({perm[int(conns[e][s])] for e, s in bsides} | {perm[int(conns[e][(s + 1) % 3])] for e, s in bsides})
    rng.shuffle(bnodes)
    nodeSets = [dict(name=sname(0, "ns_a"), mem=bnodes[:max(1, len(bnodes) // 2)]),
                dict(name=sname(1, "ns_b"), mem=[perm[int(conns[0][0])]])]
    if fmt == "json":
        blocks = [dict(name="", conn=fconn)]
        for i, s in enumerate(nodeSets):
            s["name"] = s["name"] or "ns_%d" % i
        for i, s in enumerate(sideSets):
            s["name"] = s["name"] or "ss_%d" % i
    return dict(coords=fcoords, elemType="TRI6" if fmt == "exo6" else "TRI3", blocks=blocks, nodeSets=nodeSets,
                sideSets=sideSets, elemMap=bool(elem_map))


def situation(ev):
    """Topological situation of an Edges event (same classification as Situation in MeshTopology.tla)."""
    vtx, ec, et = ev["vtx"], ev["ec"], ev["et"]
    d = {(t[s], t[(s + 1) % 3]) for t in vtx for s in range(3)}
    bc = sorted({sum(1 for s in range(3) if (t[(s + 1) % 3], t[s]) not in d) for t in vtx})
    V = {v for t in vtx for v in t}
    inter = any(all((b, a) in d for (a, b) in d if a == v or b == v) for v in V)
    return dict(sidePairs=sorted({(r[1], r[3], 1 if r[0] < r[2] else 0) for r in et if r[2] != -1}),
                bcounts=bc, euler=len(V) - len(ec) + len(vtx), interiorVertex=bool(inter))


def sit_key(s):
    return json.dumps(dict(sidePairs=sorted(map(list, s["sidePairs"])), bcounts=sorted(s["bcounts"]),
                           euler=s["euler"], interiorVertex=bool(s["interiorVertex"])), sort_keys=True)


# ----------------------------------------------------------------------------- case generation
def catalogue_cases(behs, tier, rng, rep):
    """One case per catalogue mesh selected: all distinct situations first, then a seeded sample."""
    by_mesh = {}
    for b in behs:
        key = json.dumps(b["conns"])
        if key not in by_mesh:
            by_mesh[key] = b
    meshes = list(by_mesh.values())
    by_sit = {}
    for b in meshes:
        by_sit.setdefault(sit_key(b["sit"]), []).append(b)
    rep.coverage["catalogue_meshes"] = len(meshes)
    rep.coverage["catalogue_situations"] = len(by_sit)
    chosen = [rng.choice(v) for _, v in sorted(by_sit.items())]
    rest = [b for b in meshes if all(b is not c for c in chosen)]
    rng.shuffle(rest)
    budget = 200 if tier == "quick" else 2500
    if len(chosen) > budget:
        rng.shuffle(chosen)
    chosen = (chosen + rest)[:max(budget, 0)]
    cases, emb_cache, failed = [], {}, 0
    for i, b in enumerate(chosen):
        conns = b["conns"]
        canon = json.dumps([sorted(t) for t in conns])     # rotations of an element share the embedding
        first = b["ops"][0]["op"] if b["ops"] else ""
        if any(o["op"] == "Attach" for o in b["ops"][1:]):
            first = "Attach"            # a structured patch grown further: embed generically
        if first == "Ring":
            pts = dict(enumerate(RING_COORDS))
        elif first == "Structured":
            nx = b["ops"][0]["a"][0]
            pts = {v: (v % nx, v // nx) for v in range(b["nN"])}
        else:
            if canon not in emb_cache:
                emb_cache[canon] = embed([list(t) for t in conns], random.Random(rng.randrange(1 << 30)))
            pts = emb_cache[canon]
        if pts is None:
            failed += 1
            cases.append(dict(scenario="mesh", source="catalogue", coords=[[0, 0]] * b["nN"], conns=conns, edges=True,
                              elev=[], sit=b["sit"], embedded=False))
            continue
        coords = [[int(pts[v][0]), int(pts[v][1])] for v in range(b["nN"])]
        nel = 1 if tier == "quick" else 3
        elev = [list(ALL_ELEV[(i * nel + k) % len(ALL_ELEV)]) for k in range(nel)]
        cases.append(dict(scenario="mesh", source="catalogue", coords=coords, conns=conns, edges=True, elev=elev,
                          sit=b["sit"], embedded=True))
    rep.coverage["catalogue_replayed"] = len(cases)
    rep.coverage["catalogue_not_embeddable"] = failed
    return cases


def generated_cases(tier, rng):
    cases = []
    quick = tier == "quick"
    # -- structured generator, many sizes, integer and non-integer extents
    sizes = [(2, 2), (3, 2), (2, 4), (4, 3), (5, 4), (6, 5)] if quick else \
        [(2, 2), (3, 2), (2, 3), (2, 4), (4, 2), (3, 3), (4, 3), (3, 5), (5, 4), (6, 5), (7, 4), (2, 9), (9, 2), (6, 6), (8, 5)]
    for k, (nx, ny) in enumerate(sizes):
        if k % 2 == 0:
            xe, ye = [0.0, float(nx - 1)], [0.0, float(2 * (ny - 1))]
        else:
            xe, ye = [round(rng.uniform(-2, 0), 3), round(rng.uniform(0.5, 3), 3)], [round(rng.uniform(-1, 0), 3), round(rng.uniform(0.3, 2), 3)]
        small = (nx - 1) * (ny - 1) <= 6
        elev = [list(ALL_ELEV[(2 * k + j) % 8]) for j in range(2 if quick else 4)] if small or not quick else [list(ALL_ELEV[k % 4])]
        if (nx - 1) * (ny - 1) * 2 > 24:
            elev = [e for e in elev if e[0] <= 3][:1]
        cases.append(dict(scenario="structured", nx=nx, ny=ny, xe=xe, ye=ye, elev=elev))
    # -- Delaunay meshes (with and without a hole), random cyclic rotation of every element
    nd = 18 if quick else 120
    for k in range(nd):
        n = [6, 7, 8, 9, 10, 12][k % 6] if quick else rng.choice([5, 6, 7, 8, 9, 10, 12, 14, 16])
        coords, conns = delaunay_mesh(n, rng, hole=(k % 3 == 2))
        conns = rotate_elements(conns, rng)
        nel = 1 if quick else 2
        elev = [list(ALL_ELEV[(k * nel + j + 3) % 8]) for j in range(nel)]
        if len(conns) > 16:
            elev = [e for e in elev if e[0] <= 3] or [[2, False]]
        cases.append(dict(scenario="mesh", source="delaunay", coords=coords, conns=conns, edges=True, elev=elev,
                          hole=(k % 3 == 2)))
    # -- plates with holes and annuli
    plates = [(4, 4), (5, 4)] if quick else [(4, 4), (5, 4), (5, 5), (6, 4), (6, 5), (4, 6)]
    for k, (nx, ny) in enumerate(plates):
        coords, conns = plate_with_hole(nx, ny, rng)
        cases.append(dict(scenario="mesh", source="plate_hole", coords=coords, conns=rotate_elements(conns, rng), edges=True,
                          elev=[list(ALL_ELEV[(k + 1) % 4])], hole=True))
    for k, n in enumerate([3, 5] if quick else [3, 4, 5, 6, 7, 8]):
        coords, conns = annulus(n)
        cases.append(dict(scenario="mesh", source="annulus", coords=coords, conns=rotate_elements(conns, rng), edges=True,
                          elev=[list(ALL_ELEV[(2 * k + 5) % 8])], hole=True))
    # -- merging: disjoint and clashing names, absent sets, empty side sets
    modes = ["disjoint", "clash_all", "clash_blocks", "clash_nodesets", "clash_sidesets", "noneB", "noneA", "disjoint"]
    nm = 16 if quick else 64
    for k in range(nm):
        mode = modes[k % len(modes)]
        def pick():
            r = rng.randrange(3)
            if r == 0:
                nx, ny = rng.choice([(2, 2), (3, 2), (2, 3), (3, 3)])
                return [[float(i), float(j)] for j in range(ny) for i in range(nx)], \
                       [[int(v) for v in t] for t in _struct_conns(nx, ny)]
            if r == 1:
                return delaunay_mesh(rng.choice([5, 6, 7]), rng)
            return plate_with_hole(4, 4, rng)
        (cA, tA), (cB, tB) = pick(), pick()
        tB = rotate_elements(tB, rng)
        pA, pB = ("1", "2") if mode in ("disjoint", "noneA", "noneB") else ("", "")
        bA, bB = ("block1", "block2") if mode not in ("clash_all", "clash_blocks") else ("block", "block")
        A = with_sets(cA, tA, pA if mode != "clash_blocks" else "1", bA, rng, none_sets=(mode == "noneA"))
        B = with_sets(cB, tB, pB if mode != "clash_blocks" else "2", bB, rng, none_sets=(mode == "noneB"), shift=20.0)
        if mode == "clash_nodesets":      # only node sets share names
            B["sideSets"] = {k2 + "_b": v for k2, v in B["sideSets"].items()}
        if mode == "clash_sidesets":
            B["nodeSets"] = {k2 + "_b": v for k2, v in B["nodeSets"].items()}
        if mode in ("clash_all", "clash_sidesets"):
            # a set that is EMPTY in one mesh and non-empty under the same name in the other (either way round): the union
            # must keep the members of the non-empty one
            for j, nm_ in enumerate(sorted(set(A["sideSets"]) & set(B["sideSets"]))):
                if len(A["sideSets"][nm_]) and len(B["sideSets"][nm_]) and j < 2:
                    (B if (k // len(modes) + j) % 2 == 0 else A)["sideSets"][nm_] = []
            for j, nm_ in enumerate(sorted(set(A["nodeSets"]) & set(B["nodeSets"]))):
                if len(A["nodeSets"][nm_]) and len(B["nodeSets"][nm_]) and j < 1:
                    (B if (k // len(modes)) % 2 == 1 else A)["nodeSets"][nm_] = []
        post_elev = []
        if (len(tA) + len(tB)) <= 20 and k % 2 == 0:
            sides = list((A.get("sideSets") or {}).values()) + list((B.get("sideSets") or {}).values())
            opt = 2 if (k % 4 == 0 and sides and all(len(v) > 0 for v in sides)) else 1
            post_elev = [[2 + (k // 2) % 2, bool((k // 4) % 2), opt]]
        cases.append(dict(scenario="merge", mode=mode, A=A, B=B, edges=True, elev=post_elev))
    # -- files: Exodus tri3 / tri6 written with netCDF4, JSON; several blocks, named / unnamed sets
    nf = 18 if quick else 72
    for k in range(nf):
        fmt = ["exo3", "exo6", "json"][k % 3]
        r = rng.randrange(3)
        if r == 0:
            nx, ny = rng.choice([(2, 2), (3, 2), (3, 3), (4, 3)])
            coords, conns = [[float(i), float(2 * j)] for j in range(ny) for i in range(nx)], [[int(v) for v in t] for t in _struct_conns(nx, ny)]
        elif r == 1:
            coords, conns = delaunay_mesh(rng.choice([6, 8, 10]), rng, hole=bool(k % 2))
        else:
            coords, conns = plate_with_hole(4, 4, rng)
        conns = rotate_elements(conns, rng)
        spec = file_spec(coords, conns, rng, fmt, nblocks=[1, 2, 3][(k // 3) % 3], named=["all", "mixed", "none"][(k // 3) % 3],
                         elem_map=bool(k % 2))
        cases.append(dict(scenario="read", fmt=fmt, file=spec, edges=True))
    # -- the upstream test files
    for path, fmt in ((os.path.join(common.REPO, "optimism", "test", "patch_2_blocks.exo"), "exo6"),
                      (os.path.join(common.REPO, "optimism", "test", "patch.json"), "json")):
        if os.path.exists(path):
            cases.append(dict(scenario="read", fmt=fmt, path=path, edges=True, upstream=True))
    return cases


def _struct_conns(nx, ny):
    out = []
    for ex in range(nx - 1):
        for ey in range(ny - 1):
            out.append([ex + nx * ey, ex + 1 + nx * ey, ex + 1 + nx * (ey + 1)])
            out.append([ex + nx * ey, ex + 1 + nx * (ey + 1), ex + nx * (ey + 1)])
    return out


def features(case, ev=None):
    """Classification features known-finding signatures are matched on."""
    c = dict(case)
    if case["scenario"] == "merge":
        A, B = case["A"], case["B"]
        clash = {}
        for kind in ("blocks", "nodeSets", "sideSets"):
            a, b = A.get(kind) or {}, B.get(kind) or {}
            clash[kind] = sorted(set(a) & set(b))
        c["name_clash"] = any(clash.values())
        c["clashing_names"] = clash
    if ev is not None:
        c["event_op"] = ev.get("op")
        for k in ("p", "bubble", "fmt"):
            if k in ev:
                c[k] = ev[k]
    return c


# ----------------------------------------------------------------------------- main
def design_run(rep, tier):
    """(A) exhaustive TLC run; also prints the catalogue (BEH) and one ACT line per state."""
    cfg = "MeshTopologyGen_design.cfg"
    res = tlc.run("MeshTopologyGen.tla", cfg, label="design", coverage=False, timeout=1500, env=TLC_ENV)
    if not tlc.require_ok(res, rep, "design"):
        return []
    acts = {}
    for a in res.payloads("ACT"):
        acts[a] = acts.get(a, 0) + 1
    res.action_counts = dict(acts)
    rep.add_tlc(res)
    for a in DESIGN_ACTIONS:
        if acts.get(a, 0) == 0:
            rep.machinery("design run never took action %s" % a)
    behs = [b for b in res.payloads("BEH") if isinstance(b, dict)]
    n_mesh_states = sum(acts.get(a, 0) for a in ("Structured", "Ring", "Attach", "Rotate"))
    if len(behs) != n_mesh_states:
        rep.machinery("catalogue lines %d != mesh states %d" % (len(behs), n_mesh_states))
    if tier == "thorough":
        big = tlc.run("MeshTopologyGen.tla", "MeshTopologyGen_thorough.cfg", label="design-thorough", coverage=False,
                      timeout=2400, env=TLC_ENV)
        if tlc.require_ok(big, rep, "design-thorough"):
            rep.add_tlc(big)
    return behs


def main(tier, replay=None):
    common.setup_paths()
    rep = common.Reporter(PID, tier)
    rep.assumptions = [
        "alpha: connectivity / edge tables / set members / file tables are passed to TLC verbatim as integers",
        "area sign: exact rational arithmetic on the float coordinates (fractions.Fraction), codes GT/EQ/LT",
        "placement: |x_node - affine image of its reference node| <= %g * max(h, |X|max) per element" % PLACE_RTOL,
        "coincident nodes: distance <= %g * mesh diameter" % COINCIDE_RTOL,
        "local node roles (vertex / side s position k / interior) derived from parentElement.coordinates alone "
        "(barycentric coordinates, tolerance 1e-12); the library's vertex/face/interior tables only enter drift_ref_tables",
        "file tables are read back from the written file with netCDF4 / json independently of optimism's readers",
        "catalogue meshes are embedded with integer coordinates (all triangles ccw, pairwise non-overlapping, no three vertices collinear)",
    ]
    rng = random.Random(common.seed())
    work = common.scratch("c13")
    t0 = time.time()
    try:
        if replay:
            case = json.load(open(replay))["case"]
            extra = ("event", "event_op", "name_clash", "clashing_names", "p", "bubble")
            base = {k: v for k, v in case.items() if k not in extra}
            cases = [base]
        else:
            # the exhaustive TLC run (a subprocess) proceeds while the generated families run on the real code
            import threading
            holder = {}
            th = threading.Thread(target=lambda: holder.update(behs=design_run(rep, tier)))
            th.start()
            cases = generated_cases(tier, rng)
        traces, by_id = [], {}
        sit_real, sit_cat, pairs_by_elev = set(), set(), {}
        def execute(case_list, first_id):
            for i, case in enumerate(case_list):
                tid = first_id + i
                try:
                    evs = run_case(case, work)
                except Exception as ex:      # a public call raised on a valid input
                    rep.fail("no_exception", features(case), repr(ex)[:300])
                    continue
                traces.append(dict(id=tid, ev=evs))
                by_id[tid] = (case, evs)
                last_pairs = None
                for ev in evs:
                    for c in CLAUSES[ev["op"]]:
                        rep.count_clause(c)
                    rep.coverage.setdefault("events", {}).setdefault(ev["op"], 0)
                    rep.coverage["events"][ev["op"]] += 1
                    if ev["op"] == "Edges":
                        s = situation(ev)
                        sit_real.add(sit_key(s))
                        last_pairs = {tuple(x) for x in s["sidePairs"]}
                        if case.get("source") == "catalogue":
                            sit_cat.add(sit_key(case["sit"]))
                            if sit_key(case["sit"]) != sit_key(s):
                                rep.machinery("situation of catalogue mesh differs between TLC and harness: %s vs %s"
                                              % (sit_key(case["sit"]), sit_key(s)))
                    if ev["op"] == "Elevate" and last_pairs is not None:
                        pairs_by_elev.setdefault("p%d%s" % (ev["p"], "b" if ev["bubble"] else ""), set()).update(last_pairs)
        execute(cases, 1)
        if not replay:
            th.join()
            rep.coverage["python_wall_generated_s"] = round(time.time() - t0, 1)
            cat = catalogue_cases(holder.get("behs", []), tier, random.Random(common.seed() + 1), rep)
            execute(cat, len(cases) + 1)
        rep.coverage["situations_seen_on_real_meshes"] = len(sit_real)
        rep.coverage["catalogue_situations_replayed"] = len(sit_cat)
        rep.coverage["side_pairs_covered_per_elevation"] = {k: len(v) for k, v in sorted(pairs_by_elev.items())}
        rep.coverage["python_wall_s"] = round(time.time() - t0, 1)
        # samples: a small edge-table observation, an elevation summary and a merge summary as sent to TLC
        for want in ("Edges", "Elevate", "Merge", "Read"):
            for t in traces:
                case = by_id[t["id"]][0]
                ev = next((e for e in t["ev"] if e["op"] == want), None)
                if ev is None or len(json.dumps(ev)) > 1500 and want in ("Edges", "Elevate"):
                    continue
                if want == "Edges":
                    rep.sample(dict(scenario=case["scenario"], source=case.get("source"), event=ev))
                elif want == "Elevate":
                    rep.sample(dict(scenario=case["scenario"], source=case.get("source"), op="Elevate", p=ev["p"], bubble=ev["bubble"],
                                    simplex_conns=ev["S"]["conns"], ho_conns=ev["H"]["conns"], roles=ev["roles"], place=ev["place"]))
                elif want == "Merge":
                    rep.sample(dict(scenario="merge", mode=case.get("mode"), blocksA=ev["A"]["blocks"], blocksB=ev["B"]["blocks"],
                                    blocksMerged=ev["R"]["blocks"]))
                else:
                    rep.sample(dict(scenario="read", fmt=ev["fmt"], file_blocks=[dict(name=b["name"], n=len(b["conn"])) for b in ev["F"]["blocks"]],
                                    file_nodeSets=ev["F"]["nodeSets"], read_nodeSets=ev["R"]["nodeSets"], read_blocks=ev["R"]["blocks"]))
                break

        def on_fail(tid, l, clause):
            case, evs = by_id[tid]
            c = features(case, evs[l - 1])
            c["event"] = l
            rep.fail(clause, c)
        trace.validate("MeshTopologyTrace.tla", "MeshTopologyTrace.cfg", traces, rep, on_fail=on_fail, env=TLC_ENV,
                       chunk=400)
        if not replay:
            for op, cl in CLAUSES.items():
                for c in cl:
                    if rep.coverage["clauses_evaluated"].get(c, 0) == 0:
                        rep.machinery("clause %s never evaluated" % c)
    finally:
        shutil.rmtree(work, ignore_errors=True)
    return rep.finish(
        rule="design: all meshes built by Attach/RotateElement (<=4 triangles, <=6 vertices) + structured 2x2,3x2,2x3 + "
             "6-triangle ring, each with edges / elevation / merge / write-read; real code: one trace per case "
             "(catalogue mesh per distinct situation + seeded sample, structured sizes, seeded Delaunay with random "
             "rotations, plates with holes, annuli, merges with 7 naming modes, Exodus tri3/tri6 + JSON files, upstream "
             "files); distinct = distinct topological situations on real meshes",
        extra={"distinct_nontrivial": len(sit_real) if not replay else 1}, exhaustive=False)


if __name__ == "__main__":
    sys.exit(main(common.tier()))
