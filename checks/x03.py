"""X03 (extension, not a listed property) — EquationSolverSubspace.trust_region_subspace_minimize judged by the same
contract trace spec as C01 (descent on accepted iterates, finiteness, returns the last reported iterate); it uses
treigen.solve (C06) for its reduced model problems."""
import json
import random
import sys

from harness import common, trace
from checks import trsolve
from checks.c01 import settings_from

PID = "X03"


def main(tier, replay=None):
    common.setup_paths()
    rep = common.Reporter(PID, tier)
    rep.assumptions = ["extension beyond the listed properties: not registered in MANIFEST.json", "dense sksparse shim"]
    rng = random.Random(common.seed())
    cases, traces = [], []
    kinds = ["convex", "indef", "wiggly", "singular"]
    for i in range(40 if tier == "quick" else 600):
        n = [2, 3, 5][i % 3]
        prob = trsolve.random_problem(rng, n, kinds[i % 4])
        sv = [dict(), dict(max_trust_iters=4), dict(tr_size=0.05, max_trust_iters=12), dict(over_iters=1, max_trust_iters=10)][(i // 4) % 4]
        cases.append(dict(prob=prob, x0=[rng.uniform(-2, 2) for _ in range(n)], settings=sv))
    if replay:
        cases = [json.load(open(replay))["case"]]
    for i, c in enumerate(cases):
        s = dict(c["settings"]); s["debug_info"] = False
        t = trsolve.run("sub", c["prob"], c["x0"], settings_from(s), tid=i + 1)
        t.pop("n_scripted", None)
        traces.append(t)
    for t in traces:
        for e in t["ev"]:
            if e["e"] == "Report":
                rep.count_clause("descent")
            if e["e"] == "Return":
                rep.count_clause("returns_last")
    ends = {}
    for t in traces:
        k = t["ev"][-1]["e"]
        ends[k] = ends.get(k, 0) + 1
    rep.coverage["end_kinds"] = ends
    rep.sample(traces[0]["ev"][:8])
    ids = {t["id"]: c for t, c in zip(traces, cases)}

    def on_fail(tid, l, clause):
        c = dict(ids[tid]); c["event"] = l
        c["events"] = [t for t in traces if t["id"] == tid][0]["ev"]
        c["returned_none"] = any(e.get("e") == "Raised" and "returned None" in e.get("what", "") for e in c["events"])
        rep.fail(clause, c)
    trace.validate("TrustRegionTrace.tla", "TrustRegionTrace.cfg", traces, rep, on_fail=on_fail)
    return rep.finish(rule="seeded smooth family x setting vectors on the subspace trust-region minimizer",
                      extra={"distinct_nontrivial": len({json.dumps(t["ev"]) for t in traces})})


if __name__ == "__main__":
    sys.exit(main(common.tier()))
