"""X04 (extension, not a listed property) — whole-analysis driver protocol (System.tla) observed on the real
material.MaterialUniaxialSimulator.run: one record per step, prescribed strain, the internal state is updated exactly once
per step from the previous recorded state, energy/stress are those of the recorded (strain, state), lateral stresses vanish
(uniaxial stress) to the solver tolerance, eqps never decreases."""
import json
import random
import sys

import numpy as onp

from harness import common, tlc, trace
from harness.proxies import Silence

PID = "X04"


def run_case(c, tid):
    import jax
    import jax.numpy as np
    from optimism.material import J2Plastic, Neohookean, MaterialUniaxialSimulator
    if c["mat"] == "j2":
        props = {'elastic modulus': c["E"], 'poisson ratio': c["nu"], 'yield strength': c["Y0"], 'kinematics': c["kin"],
                 'hardening model': 'linear', 'hardening modulus': c["H"]}
        mat = J2Plastic.create_material_model_functions(props)
    else:
        mat = Neohookean.create_material_model_functions({'elastic modulus': c["E"], 'poisson ratio': c["nu"], 'version': 'coupled'})
    emax, steps, T = c["emax"], c["steps"], c["T"]
    hist = (lambda t: emax * np.sin(np.pi * t / T)) if c["reversing"] else (lambda t: emax * t / T)
    tol = c["tol"]
    with Silence():
        out = MaterialUniaxialSimulator.run(mat, hist, T, steps=steps, tol=tol)
    dt = float(out.time[1] - out.time[0])
    upd = jax.jit(mat.compute_state_new)
    wg = jax.jit(jax.value_and_grad(mat.compute_energy_density))
    ev = []
    s_prev = onp.asarray(mat.compute_initial_state())
    scale = c["E"]
    for k in range(len(out.strainHistory)):
        strain = onp.asarray(out.strainHistory[k])
        s_k = onp.asarray(out.internalVariableHistory[k])
        want = float(hist(float(out.time[k])))
        s_ref = onp.asarray(upd(np.array(strain), np.array(s_prev), dt))
        W, P = wg(np.array(strain), np.array(s_k), dt)
        P = onp.asarray(P)
        stress = onp.asarray(out.stressHistory[k])
        e = dict(k=k + 1,
                 strainOk=bool(abs(strain[0, 0] - want) <= 1e-14 * max(1.0, abs(want)) and onp.allclose(strain, onp.diag(onp.diag(strain)))),
                 stateChain=bool(s_k.shape == s_ref.shape and onp.allclose(s_k, s_ref, rtol=1e-12, atol=1e-14)),
                 energyConsistent=bool(abs(float(out.energyHistory[k]) - float(W)) <= 1e-12 * max(1e-300, abs(float(W)))),
                 stressConsistent=bool(onp.allclose(stress, P, rtol=1e-12, atol=1e-14 * scale)),
                 # the free strains minimise the energy at the state of the previous step: gradient w.r.t. them < tol;
                 # for rate-independent models stress before = after commit (C09), so the recorded lateral stress is small too
                 uniaxial=bool(max(abs(stress[1, 1]), abs(stress[2, 2])) <= tol * (1 + 1e-6) + 1e-8 * scale),
                 eqpsMonotone=bool(s_k.size == 0 or s_prev.size == 0 or s_k[0] >= s_prev[0]))
        ev.append(e)
        s_prev = s_k
    return dict(id=tid, n=steps, ev=ev)


def main(tier, replay=None):
    common.setup_paths()
    rep = common.Reporter(PID, tier)
    rep.assumptions = ["extension beyond the listed properties: not registered in MANIFEST.json",
                       "lateral stress allowance: solver tol + 1e-8 E (commit invariance of the stress, C09)"]
    rng = random.Random(common.seed())
    des = tlc.run("System.tla", "System.cfg", workers=1, label="design")
    tlc.require_ok(des, rep, "design")
    rep.add_tlc(des)
    cases = []
    for i in range(6 if tier == "quick" else 60):
        E = 10 ** rng.uniform(0, 2)
        cases.append(dict(mat=["j2", "neo", "j2"][i % 3], E=E, nu=rng.uniform(0.1, 0.4), Y0=E * 10 ** rng.uniform(-2.5, -1.5),
                          H=E * 10 ** rng.uniform(-2, -1), kin=["small deformations", "large deformations"][i % 2],
                          emax=rng.uniform(0.01, 0.08), steps=rng.choice([4, 7, 10]), T=rng.uniform(0.5, 2.0),
                          reversing=(i % 2 == 1), tol=1e-8 * E))
    if replay:
        cases = [json.load(open(replay))["case"]]
    traces = [run_case(c, i + 1) for i, c in enumerate(cases)]
    for t in traces:
        rep.count_clause("state_updated_once_from_previous", len(t["ev"]))
        rep.count_clause("lateral_stress_free", len(t["ev"]))
    rep.sample(traces[0]["ev"][:3])
    trace.validate("SystemTrace.tla", "SystemTrace.cfg", traces, rep,
                   on_fail=lambda tid, l, clause: rep.fail(clause, dict(cases[tid - 1], event=l)))
    return rep.finish(rule="seeded uniaxial simulations (J2 small/large, neo-Hookean; monotone and reversing strain histories)",
                      extra={"distinct_nontrivial": len(traces)})


if __name__ == "__main__":
    sys.exit(main(common.tier()))
