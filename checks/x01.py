"""X01 (extension, not a listed property) — SparseCholesky.factorize retry ladder (PrecondLadder.tla).
Every subset of positive-definite attempts TLC enumerates (2^10) is replayed into the REAL SparseCholesky.update /
factorize with a scripted new_stiffness_func; requested attempts, the matrix finally factorized and apply() are judged
by PrecondLadderTrace.tla.  Supports the exact/stale/identity preconditioner quantifier of C01/C05/C19."""
import json
import random
import sys

import numpy as onp

from harness import common, tlc, trace
from harness.proxies import Silence

PID = "X01"


def run_case(spd, rng, tid):
    from scipy.sparse import identity, csc_matrix
    from optimism.SparseCholesky import SparseCholesky
    n = 3
    requested = []

    def stiffness(attempt):
        requested.append(int(attempt))
        if attempt < len(spd) and spd[attempt]:
            return csc_matrix(onp.diag([attempt + 2.0, attempt + 3.0, attempt + 4.0]))
        return csc_matrix(onp.diag([1.0, -1.0 - attempt, 2.0]))        # indefinite
    pc = SparseCholesky()
    b = onp.array([rng.uniform(-1, 1) for _ in range(n)])
    result, solves = -2, False
    try:
        with Silence():
            pc.update(stiffness)
            x = onp.asarray(pc.apply(b))
        A = onp.asarray(pc.A.todense())
        if onp.allclose(A, onp.eye(n)):
            result = -1
        else:
            result = int(round(A[0, 0] - 2.0)) if A[0, 0] >= 2 else -2
        solves = bool(onp.allclose(A @ x, b, rtol=1e-12, atol=1e-12))
    except Exception as ex:  # noqa
        result = -2
    return dict(id=tid, spd=[bool(v) for v in spd], requested=requested, result=result, solves=solves)


def main(tier, replay=None):
    common.setup_paths()
    rep = common.Reporter(PID, tier)
    rep.assumptions = ["dense sksparse shim provides the Cholesky factor (raises the not-positive-definite error like CHOLMOD)",
                       "extension beyond the listed properties: not registered in MANIFEST.json"]
    rng = random.Random(common.seed())
    traces, cases = [], {}
    if replay:
        c = json.load(open(replay))["case"]
        traces.append(run_case(c["spd"], rng, 1)); cases[1] = c
    else:
        des = tlc.run("PrecondLadder.tla", "PrecondLadder.cfg", workers=1, label="design")
        tlc.require_ok(des, rep, "design")
        rep.add_tlc(des)
        for i, b in enumerate(des.payloads("BEH")):
            spd = b["spd"]
            spd = [bool(spd[str(a)]) for a in range(len(spd))] if isinstance(spd, dict) else [bool(v) for v in spd]
            traces.append(run_case(spd, rng, i + 1)); cases[i + 1] = dict(spd=spd)
    if tier != "quick" and not replay:
        # unbounded companion: Apalache discharges an inductive invariant of the ladder for every cap <= 64 and every success
        # pattern (2^64 of them), plus a negative control; a failure here is a machinery error, never a VIOLATION
        import subprocess
        r = subprocess.run([common.SPECS + "/apalache/run.sh"], capture_output=True, text=True)
        rep.coverage["apalache"] = [l for l in r.stdout.splitlines() if l.startswith("APALACHE")]
        if r.returncode != 0:
            rep.machinery("apalache inductive check failed: %s" % r.stdout[-400:])
    for c in ("result_is_first_spd", "requests_in_order", "request_count", "apply_solves"):
        rep.count_clause(c, len(traces))
    if traces:
        rep.sample(traces[len(traces) // 3])
    trace.validate("PrecondLadderTrace.tla", "PrecondLadderTrace.cfg", traces, rep,
                   on_fail=lambda tid, l, clause: rep.fail(clause, cases[tid]))
    return rep.finish(rule="every subset of positive-definite attempts (2^10) enumerated by TLC, replayed into the real "
                           "SparseCholesky.update", extra={"distinct_nontrivial": len(traces)}, exhaustive=True)


if __name__ == "__main__":
    sys.exit(main(common.tier()))
