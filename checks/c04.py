"""C04 — Inequality-constrained (augmented Lagrangian) solve returns a KKT point with non-negative multipliers.

(A) AugLag.tla (outer-iteration state machine, every environment history) and FischerBurmeister.tla (exact lattice
    check that FB = 0 <=> complementarity) checked by TLC.
(B) sub-solver scripts (quality x success flag per outer iteration) taken from TLC's behaviours are replayed
    through the `sub_problem_solver` parameter of the REAL augmented_lagrange_solve on real ConstrainedObjectives.
(C) genuine solves with the real trust-region sub-solver: convex QPs / concave-constraint programs with active,
    inactive, weakly active and redundant constraints, infeasible starts, random initial multipliers, first- and
    second-order updates, penalty scaling; the bound-constrained front end on x[idx] >= 0.
Snapshots (public callback + closure on objective.lam / objective.kappa) and the return are validated by
AugLagTrace.tla.
"""
import itertools
import json
import random
import sys

import numpy as onp

from harness import common, tlc, trace
from harness.proxies import Silence

PID = "C04"
_OBJ = {}
N = 3


def f_obj(x, p):
    A, b, G, h, q = p[0]
    return 0.5 * x @ (A @ x) - b @ x


def c_fun(x, p):
    A, b, G, h, q = p[0]
    return G @ x - h - q * (x @ x)


def make_p(prob):
    import jax.numpy as np
    from optimism import Objective
    return Objective.Params(bc_data=(np.array(prob["A"]), np.array(prob["b"]), np.array(prob["G"]),
                                     np.array(prob["h"]), np.array(prob["q"])))


def get_objective(m, kappa0):
    """One ConstrainedObjective per (m, initial kappa): kappa0 is baked into its jitted FB residual."""
    import jax.numpy as np
    from optimism import ConstrainedObjective
    key = (m, tuple(kappa0))
    if key not in _OBJ:
        prob = dict(A=onp.eye(N).tolist(), b=[0.0] * N, G=onp.zeros((m, N)).tolist(), h=[0.0] * m, q=[0.0] * m)
        with Silence():
            _OBJ[key] = ConstrainedObjective.ConstrainedObjective(f_obj, c_fun, np.zeros(N), make_p(prob),
                                                                  np.zeros(m), np.array(kappa0, dtype=float))
    return _OBJ[key]


def random_problem(rng, m, kind):
    Q, _ = onp.linalg.qr(onp.array([[rng.gauss(0, 1) for _ in range(N)] for _ in range(N)]))
    ev = [10 ** rng.uniform(0, 1.5) for _ in range(N)]
    A = Q @ onp.diag(ev) @ Q.T
    A = 0.5 * (A + A.T)
    xu = onp.array([rng.uniform(-1, 1) for _ in range(N)])       # unconstrained minimiser
    b = A @ xu
    G, h, q = [], [], []
    for j in range(m):
        g = onp.array([rng.gauss(0, 1) for _ in range(N)])
        g /= onp.linalg.norm(g)
        r = rng.random()
        if kind == "weak" and j == 0:
            hj = float(g @ xu)                  # weakly active: the unconstrained minimiser sits on it
        elif r < 0.5:
            hj = float(g @ xu) + rng.uniform(0.1, 1.0)      # cuts off xu: active
        else:
            hj = float(g @ xu) - rng.uniform(0.1, 1.0)      # inactive
        G.append(g.tolist()); h.append(hj)
        q.append(rng.uniform(0.0, 0.3) if kind == "nonlinear" else 0.0)
    if kind == "redundant" and m >= 2:
        s = rng.uniform(0.5, 2.0)
        G[1] = (onp.array(G[0]) * s).tolist(); h[1] = h[0] * s
    return dict(A=A.tolist(), b=b.tolist(), G=G, h=h, q=q, kind=kind, m=m)


def qp_reference(prob):
    """Independent reference for linear constraints: active-set enumeration with dense solves."""
    A = onp.array(prob["A"]); b = onp.array(prob["b"]); G = onp.array(prob["G"]); h = onp.array(prob["h"])
    m = len(h)
    best = None
    for r in range(m + 1):
        for S in itertools.combinations(range(m), r):
            S = list(S)
            if S:
                Km = onp.block([[A, -G[S].T], [G[S], onp.zeros((len(S), len(S)))]])
                sol = onp.linalg.lstsq(Km, onp.concatenate([b, h[S]]), rcond=None)[0]
                x, lam = sol[:N], sol[N:]
            else:
                x, lam = onp.linalg.solve(A, b), onp.zeros(0)
            if onp.all(G @ x - h >= -1e-9) and onp.all(lam >= -1e-9) and \
               onp.linalg.norm(A @ x - b - (G[S].T @ lam if S else 0)) < 1e-8:
                v = 0.5 * x @ A @ x - b @ x
                if best is None or v < best[0] - 1e-12:
                    best = (v, x)
    return None if best is None else best[1]


def kkt_flags(prob, x, lam, kappa, k0, tol):
    """alpha at return: literal consequences of ||[grad_x L_A ; FB(c, lam, k0)]|| < tol (see DESIGN C04)."""
    import jax
    import jax.numpy as np
    p = make_p(prob)
    x = np.array(x)
    gf = jax.grad(f_obj)(x, p)
    J = jax.jacfwd(c_fun)(x, p)
    c = onp.asarray(c_fun(x, p))
    lam = onp.asarray(lam); kappa = onp.asarray(kappa); k0 = onp.asarray(k0)
    gL = onp.asarray(gf) - onp.asarray(J).T @ lam
    allow = tol * (1.0 + 2.0 * float(onp.sum(onp.linalg.norm(onp.asarray(J), axis=1) * onp.maximum(1.0, kappa / k0))))
    return dict(stat=bool(onp.linalg.norm(gL) <= allow), feas=bool(onp.all(c >= -tol / k0)),
                lamNonneg=bool(onp.all(lam >= 0.0)), compl=bool(onp.all(onp.minimum(k0 * c, lam) <= 2 * tol)))


def run_al(case, tid):
    import jax.numpy as np
    from optimism import AlSolver, EquationSolver
    prob = case["prob"]
    m = prob["m"]
    k0 = case["kappa0"]
    obj = get_objective(m, k0)
    p_target = make_p(prob)
    # the objective still carries the parameters of a previous (different) problem: the solve must install the requested ones
    stale = dict(prob); stale["b"] = [v + 0.7 for v in prob["b"]]
    obj.p = make_p(stale)
    obj.lam = np.array(case["lam0"], dtype=float)
    obj.reset_kappa()
    alS = AlSolver.get_settings(**case["al"])
    subS = EquationSolver.get_settings(debug_info=False, **case.get("sub", {}))
    script = list(case["script"]) if case.get("script") is not None else None
    ev = []
    state = dict(kprev=onp.asarray(obj.kappa).copy())
    subinfo = []

    def snap():
        k = onp.asarray(obj.kappa).copy()
        ev.append(dict(e="Snap", lamNonneg=bool(onp.all(onp.asarray(obj.lam) >= 0.0)),
                       kapGE=bool(onp.all(k >= state["kprev"])), kapEQ=bool(onp.all(k == state["kprev"]))))
        state["kprev"] = k

    def cb(x, p):
        snap()

    def scripted(o, x, settings, subcb):
        item = script.pop(0) if script else dict(quality="exact", success=True)
        tight = EquationSolver.get_settings(tol=1e-11, debug_info=False, max_trust_iters=200)
        xe, _ = EquationSolver.trust_region_minimize(o, np.array(x), tight)
        if item["quality"] == "exact":
            xn = xe
        elif item["quality"] == "poor":
            xn = x + 0.5 * (xe - x)
        else:
            xn = x
        ev.append(dict(e="Sub", success=bool(item["success"])))
        return xn, bool(item["success"])

    kwargs = {}
    if script is not None:
        kwargs["sub_problem_solver"] = scripted
    x0 = np.array(case["x0"], dtype=float)
    raised = None
    xr = None
    if case.get("carry"):
        # warm re-solve: converge once, then re-solve from a perturbed point with the multipliers and penalties carried over
        with Silence():
            try:
                obj.update_precond(x0)
                x1 = AlSolver.augmented_lagrange_solve(obj, x0, p_target, AlSolver.get_settings(tol=1e-9), subS, useWarmStart=False,
                                                       updatePrecond=False)
                x0 = np.array(x1) + np.array(case["carry"])
            except Exception:
                pass
        ev.clear()
        state["kprev"] = onp.asarray(obj.kappa).copy()
    with Silence():
        try:
            obj.update_precond(x0)
            xr = AlSolver.augmented_lagrange_solve(obj, x0, p_target, alS, subS, callback=cb, useWarmStart=False,
                                                   updatePrecond=False, **kwargs)
        except NameError:
            raised = "NameError"
        except Exception as ex:  # noqa
            raised = type(ex).__name__ + ":" + str(ex)[:100]
    if raised is None:
        fl = kkt_flags(prob, xr, obj.lam, obj.kappa, k0, alS.tol)
        agree = "NA"
        if case.get("ref") is not None:
            ref = onp.array(case["ref"])
            agree = "EQ" if float(onp.linalg.norm(onp.asarray(xr) - ref)) <= 1e-5 * (1 + float(onp.linalg.norm(ref))) else "NE"
        k = onp.asarray(obj.kappa)
        ev.append(dict(e="Return", agree=agree, kapGE=bool(onp.all(k >= state["kprev"])), **fl))
    else:
        ev.append(dict(e="Raised", kind=raised))
    return dict(id=tid, newtonOnly=bool(case["al"].get("use_newton_only", False)), ev=ev)


# ------------------------------------------------------------------ bound-constrained front end
_BOBJ = {}


def fb_obj(x, p):
    A, b = p[0]
    return 0.5 * x @ (A @ x) - b @ x


def run_bound(case, tid):
    import jax.numpy as np
    from optimism import AlSolver, EquationSolver, BoundConstrainedObjective, BoundConstrainedSolver, Objective
    prob = case["prob"]
    idx = tuple(case["idx"])
    p = Objective.Params(bc_data=(np.array(prob["A"]), np.array(prob["b"])))
    x0 = np.array(case["x0"], dtype=float)
    css = float(case.get("css", 1.0))
    ps = None
    if case.get("precond"):
        from scipy.sparse import csc_matrix
        ps = Objective.PrecondStrategy(lambda x, pp: csc_matrix(onp.array(prob["A"])))
    with Silence():
        obj = BoundConstrainedObjective.BoundConstrainedObjective(fb_obj, x0, p, np.array(idx), constraintStiffnessScaling=css,
                                                                  precondStrategy=ps)
    alS = AlSolver.get_settings(**case["al"])
    subS = EquationSolver.get_settings(debug_info=False)
    ev = []
    state = dict(kprev=None)

    def cb(x, pp):
        k = onp.asarray(obj.kappa).copy()
        if state["kprev"] is None:
            state["kprev"] = k
        ev.append(dict(e="Snap", lamNonneg=bool(onp.all(onp.asarray(obj.lam) >= 0.0)),
                       kapGE=bool(onp.all(k >= state["kprev"])), kapEQ=bool(onp.all(k == state["kprev"]))))
        state["kprev"] = k
    raised, xr = None, None
    with Silence():
        try:
            xr = BoundConstrainedSolver.bound_constrained_solve(obj, x0, p, alS, subS, callback=cb, useWarmStart=False)
        except NameError:
            raised = "NameError"
        except Exception as ex:  # noqa
            raised = type(ex).__name__ + ":" + str(ex)[:100]
    if raised is None:
        A = onp.array(prob["A"]); b = onp.array(prob["b"]); x = onp.asarray(xr)
        # what the user gets: the point in physical variables and get_multipliers(); judged in the variables the solve
        # ran in (x_bar = x / invScaling), where the termination test lives
        mu = onp.asarray(obj.get_multipliers())
        sc = 1.0 / (onp.asarray(obj.invScaling) * onp.ones(len(b)))
        k0 = onp.asarray(obj.constraintKappa); kap = onp.asarray(obj.kappa)
        ii = list(idx)
        gbar = (A @ x - b) / sc
        lam = mu / sc[ii]
        gL = gbar.copy(); gL[ii] -= lam
        c = sc[ii] * x[ii]
        tol = alS.tol
        allow = tol * (1.0 + 2.0 * float(onp.sum(onp.maximum(1.0, kap / k0))))
        fl = dict(stat=bool(onp.linalg.norm(gL) <= allow), feas=bool(onp.all(c >= -tol / k0)),
                  lamNonneg=bool(onp.all(mu >= 0.0)), compl=bool(onp.all(onp.minimum(k0 * c, lam) <= 2 * tol)))
        ref = onp.array(case["ref"])
        agree = "EQ" if float(onp.linalg.norm(x - ref)) <= 1e-5 * (1 + float(onp.linalg.norm(ref))) else "NE"
        ev.append(dict(e="Return", agree=agree, kapGE=bool(onp.all(kap >= state["kprev"])) if state["kprev"] is not None else True, **fl))
    else:
        ev.append(dict(e="Raised", kind=raised))
    return dict(id=tid, newtonOnly=False, ev=ev)


def bound_reference(prob, idx):
    A = onp.array(prob["A"]); b = onp.array(prob["b"]); n = len(b)
    best = None
    for r in range(len(idx) + 1):
        for S in itertools.combinations(idx, r):
            free = [i for i in range(n) if i not in S]
            x = onp.zeros(n)
            x[free] = onp.linalg.solve(A[onp.ix_(free, free)], b[free])
            g = A @ x - b
            if all(x[i] >= -1e-10 for i in idx) and all(g[i] >= -1e-9 for i in S):
                v = 0.5 * x @ A @ x - b @ x
                if best is None or v < best[0]:
                    best = (v, x)
    return best[1]


# ------------------------------------------------------------------ cases
AL_VECTORS = [
    dict(),                                                   # defaults: second order after 3 first-order iterations
    dict(use_second_order_update=False),
    dict(num_initial_low_order_iterations=0),
    dict(penalty_scaling=1.0, max_al_iters=60),
    dict(penalty_scaling=10.0, target_constraint_decrease_factor=0.5),
    dict(tol=1e-6, num_initial_low_order_iterations=1),
]
KAPPAS = {2: [[1.0, 1.0], [0.25, 4.0]], 4: [[1.0, 1.0, 1.0, 1.0], [0.25, 2.0, 5.0, 1.0]]}


def build_cases(rep, tier, rng):
    cases = []
    gen = tlc.run("AugLagGen.tla", "AugLag_gen.cfg", workers=1, label="behaviours", coverage=False)
    scripts = []
    if tlc.require_ok(gen, rep, "behaviour generation"):
        rep.add_tlc(gen)
        seen = set()
        for b in gen.payloads("BEH"):
            sc = []
            for s in b["steps"]:
                if s["a"] == "sub":
                    quality = "exact" if (s["errSmall"] or not any(s["poor"])) else ("poor" if s["success"] else "stay")
                    sc.append((quality, bool(s["success"])))
            if sc and tuple(sc) not in seen:
                seen.add(tuple(sc))
                scripts.append([dict(quality=q, success=s) for q, s in sc])
    rep.coverage["distinct_subsolver_scripts"] = len(scripts)
    rng.shuffle(scripts)
    nrep = 1 if tier == "quick" else 4
    for i, sc in enumerate(scripts[:(40 if tier == "quick" else len(scripts))]):
        for r in range(nrep):
            kind = ["active", "weak", "redundant", "nonlinear"][(i + r) % 4]
            prob = random_problem(rng, 2, kind)
            cases.append(dict(mode="scripted", prob=prob, kappa0=KAPPAS[2][(i + r) % 2],
                              lam0=[rng.choice([0.0, rng.uniform(0, 2)]) for _ in range(2)],
                              x0=[rng.uniform(-2, 2) for _ in range(N)], al=AL_VECTORS[(i + r) % 4], script=sc))
    ngen = 45 if tier == "quick" else 400
    for i in range(ngen):
        m = [2, 4][i % 2]
        kind = ["active", "weak", "redundant", "nonlinear"][(i // 2) % 4]
        prob = random_problem(rng, m, kind)
        c = dict(mode="genuine", prob=prob, kappa0=KAPPAS[m][(i // 8) % 2],
                 lam0=[rng.choice([0.0, rng.uniform(0, 2)]) for _ in range(m)],
                 x0=[rng.uniform(-2, 2) for _ in range(N)], al=AL_VECTORS[(i // 3) % len(AL_VECTORS)], script=None)
        if kind != "nonlinear":
            ref = qp_reference(prob)
            c["ref"] = None if ref is None else ref.tolist()
        cases.append(c)
    # warm re-solves with carried multipliers / penalties at several tolerances, and sub-solver tolerance != AL tolerance
    for i in range(9 if tier == "quick" else 60):
        m = [2, 4][i % 2]
        kind = ["active", "nonlinear", "weak"][i % 3]
        prob = random_problem(rng, m, kind)
        tol = [1e-6, 1e-7, 1e-8][i % 3]
        c = dict(mode="resolve", prob=prob, kappa0=KAPPAS[m][0], lam0=[0.0] * m, x0=[rng.uniform(-1, 1) for _ in range(N)],
                 al=dict(tol=tol), script=None, carry=[rng.uniform(-1e-3, 1e-3) for _ in range(N)])
        if i % 4 == 3:
            c["sub"] = dict(tol=1e-6)
            c["al"] = dict(tol=1e-8, max_al_iters=25)
        if kind != "nonlinear":
            ref = qp_reference(prob)
            c["ref"] = None if ref is None else ref.tolist()
        cases.append(c)
    # tolerance mismatch: the sub-problem solver is allowed to stop far earlier (1e-5, 1e-6) than the augmented-Lagrangian
    # loop (1e-9, 1e-10); with active curved constraints the sub-problem is not quadratic, so its solver does stop in between
    for i in range(8 if tier == "quick" else 60):
        m = [2, 4][i % 2]
        prob = random_problem(rng, m, "nonlinear")
        cases.append(dict(mode="genuine", prob=prob, kappa0=KAPPAS[m][i % 2], lam0=[0.0] * m,
                          x0=[rng.uniform(-2, 2) for _ in range(N)], script=None,
                          sub=dict(tol=[1e-5, 1e-6][i % 2]), al=dict(tol=[1e-9, 1e-10][(i // 2) % 2], max_al_iters=60)))
    # Newton-only mode can never return normally: it must raise
    cases.append(dict(mode="newton_only", prob=random_problem(rng, 2, "active"), kappa0=KAPPAS[2][0], lam0=[0.0, 0.0],
                      x0=[0.5, 0.5, 0.5], al=dict(use_newton_only=True, max_al_iters=4), script=None))
    for i in range(10 if tier == "quick" else 40):
        n = 3
        Q, _ = onp.linalg.qr(onp.array([[rng.gauss(0, 1) for _ in range(n)] for _ in range(n)]))
        A = Q @ onp.diag([10 ** rng.uniform(0, 1) for _ in range(n)]) @ Q.T
        A = 0.5 * (A + A.T)
        b = onp.array([rng.uniform(-2, 2) for _ in range(n)])
        idx = sorted(rng.sample(range(n), rng.choice([1, 2, 3])))
        prob = dict(A=A.tolist(), b=b.tolist())
        cases.append(dict(mode="bound", prob=prob, idx=idx, x0=[rng.uniform(0.1, 1) for _ in range(n)],
                          al=AL_VECTORS[i % 3], ref=bound_reference(prob, idx).tolist(),
                          precond=bool(i % 2), css=[1.0, 0.05, 8.0][(i // 2) % 3]))
    return cases


def main(tier, replay=None):
    common.setup_paths()
    rep = common.Reporter(PID, tier)
    rep.assumptions = [
        "dense sksparse shim stands in for CHOLMOD",
        "alpha at return (literal consequences of ||[grad_x L_A; FB(c,lam,k0)]|| < tol): c_j >= -tol/k0_j, lam_j >= 0 exactly, min(k0_j c_j, lam_j) <= 2 tol, ||grad f - J^T lam|| <= tol (1 + 2 sum_j ||grad c_j|| max(1, kappa_j/k0_j)); k0 = penalties the objective was constructed with",
        "convex agreement ||x-x*|| <= 1e-5 (1+||x*||) against active-set enumeration (linear constraints only)",
        "scripted sub-solver replays check only clauses valid for any sub-solver (multiplier sign and penalty monotonicity at callbacks, KKT flags at a normal return)",
        "use_newton_only can never return normally (no sub-step, no termination test): only checked to raise"]
    rng = random.Random(common.seed())
    if replay:
        cases = [json.load(open(replay))["case"]]
    else:
        for cfg in ("AugLag_design.cfg", "AugLag_first.cfg", "AugLag_newton.cfg"):
            res = tlc.run("AugLagGen.tla", cfg, label=cfg)
            tlc.require_ok(res, rep, "design " + cfg)
            rep.add_tlc(res)
        san = tlc.run("AugLagGen.tla", "AugLag_sanity.cfg", label="sanity", coverage=False)
        rep.coverage["design_negative_multiplier_reachable_inside_iteration"] = "NeverNegativeInside" in san.violated
        fb = tlc.run("FischerBurmeister.tla", "FischerBurmeister.cfg", label="FischerBurmeister")
        tlc.require_ok(fb, rep, "FischerBurmeister")
        if tier != "quick":
            # unbounded companion (Apalache / Z3): the same two equivalences for ALL integers and penalties; machinery error on failure
            import subprocess
            r = subprocess.run([common.SPECS + "/apalache/run_generic.sh", "FischerBurmeisterAll.tla", "All", "NegControl"],
                               capture_output=True, text=True)
            rep.coverage["apalache"] = [l for l in r.stdout.splitlines() if l.startswith("APALACHE")]
            if r.returncode != 0:
                rep.machinery("apalache check of FischerBurmeisterAll.tla failed: %s" % r.stdout[-400:])
        rep.add_tlc(fb)
        cases = build_cases(rep, tier, rng)
    traces = []
    for i, c in enumerate(cases):
        t = run_bound(c, i + 1) if c["mode"] == "bound" else run_al(c, i + 1)
        traces.append(t)
    ids = {t["id"]: c for t, c in zip(traces, cases)}
    by_id = {t["id"]: t for t in traces}
    ends = {}
    for t in traces:
        for e in t["ev"]:
            if e["e"] == "Snap":
                rep.count_clause("lam_nonneg"); rep.count_clause("kappa_monotone")
            elif e["e"] == "Return":
                for c in ("kkt_stationary", "kkt_feasible", "kkt_lam_nonneg", "kkt_complementary"):
                    rep.count_clause(c)
                rep.count_clause("convex_agree", 1 if e["agree"] != "NA" else 0)
        k = t["ev"][-1]["e"] + (":" + t["ev"][-1].get("kind", "") if t["ev"][-1]["e"] == "Raised" else "")
        ends[k] = ends.get(k, 0) + 1
    rep.coverage["end_kinds"] = ends
    if traces:
        rep.sample(dict(case={k: v for k, v in cases[0].items() if k != "prob"}, events=traces[0]["ev"][:10]))

    def on_fail(tid, l, clause):
        c = dict(ids[tid]); c["event"] = l; c["events"] = by_id[tid]["ev"]
        rep.fail(clause, c)
    trace.validate("AugLagTrace.tla", "AugLagTrace.cfg", traces, rep, on_fail=on_fail)
    nd = len({json.dumps(t["ev"]) for t in traces})
    return rep.finish(rule="scripted: one real AL solve per distinct (quality, success) sub-solver script from TLC's "
                           "behaviours of AugLag.tla; genuine: seeded convex programs x AL setting vectors x initial "
                           "multipliers/penalties; bound front end; distinct = distinct abstract event sequences",
                      extra={"distinct_nontrivial": nd})


if __name__ == "__main__":
    sys.exit(main(common.tier()))
