"""X11 (extension, not a listed property) — the threshold phase-field material model (phasefield/PhaseFieldThreshold.py, both
kinematics) against PhaseFieldDamage.tla: TLC enumerates the case lattice (phase levels p <= q, deviatoric part, volumetric
part, sign of the trace) and proves on it that damage never increases the strain energy, volumetric compression is never
degraded and a fully broken point carries no tension; every case is realised with seeded moduli, magnitudes, directions and
rotations on the REAL model and PhaseFieldDamageTrace.tla judges the comparison codes."""
import json
import math
import random
import sys

import numpy as onp

from harness import common, tlc, trace

PID = "X11"
RT = 1e-10


def rand_rot(rs):
    Q, _ = onp.linalg.qr(rs.normal(size=(3, 3)))
    if onp.linalg.det(Q) < 0:
        Q[:, 0] = -Q[:, 0]
    return Q


_FN = {}


def fns(kin):
    """one compilation per kinematics: material constants are traced arguments, all requests of a run in one batch"""
    if kin not in _FN:
        import jax
        import jax.numpy as np
        from optimism.phasefield import PhaseFieldThreshold as PF

        def ev(c, H, phi, g):
            m = PF.create_material_model_functions(
                {"elastic modulus": c[0], "poisson ratio": c[1], "critical energy release rate": c[2],
                 "regularization length": c[3],
                 "kinematics": "small deformations" if kin == "small" else "large deformations"})
            iv = m.compute_initial_state()
            ws = m.compute_strain_energy_density(H, phi, np.zeros(3), iv, 0.0)
            pot = m.compute_phase_potential_density(H, phi, g, iv, 0.0)
            tot = m.compute_energy_density(H, phi, g, iv, 0.0)
            P0 = jax.grad(lambda HH: m.compute_energy_density(HH, phi, g, iv, 0.0))(np.zeros((3, 3)))
            return ws, pot, tot, P0
        _FN[kin] = jax.jit(jax.vmap(ev))
    return _FN[kin]


def run_cases(items):
    """items: list of (b, kin, seed, tid) -> traces; five evaluations per case, batched per kinematics"""
    import scipy.linalg as sl
    prep = []
    for b, kin, seed, tid in items:
        rs = onp.random.RandomState(seed)
        E, nu = 10 ** rs.uniform(-1, 3), rs.uniform(0.0, 0.45)
        Gc, l = 10 ** rs.uniform(-2, 1), 10 ** rs.uniform(-2, 0)
        mu, kappa = 0.5 * E / (1 + nu), E / 3.0 / (1 - 2 * nu)
        u = mu * 10 ** rs.uniform(-8, -2 if kin == "small" else -0.5)              # energy unit
        S = rs.normal(size=(3, 3)); S = 0.5 * (S + S.T); S -= onp.trace(S) / 3 * onp.eye(3); S /= onp.linalg.norm(S)
        e = math.sqrt(b["D"] * u / mu) * S + b["sg"] * math.sqrt(2 * b["V"] * u / kappa) / 3.0 * onp.eye(3)
        if kin == "small":
            Wk = rs.normal(size=(3, 3)); H = e + 0.3 * onp.linalg.norm(e) * (Wk - Wk.T)
        else:
            H = rand_rot(rs) @ sl.expm(e) - onp.eye(3)
        n = b["n"]
        g = rs.normal(size=3) * rs.choice([0.0, 1.0]) / l
        Q = rand_rot(rs)
        Hrot = Q @ (H + onp.eye(3)) - onp.eye(3)
        prep.append(dict(b=b, kin=kin, tid=tid, c=[E, nu, Gc, l], u=u, H=H, g=g, Hrot=Hrot, phi=b["q"] / n, phip=b["p"] / n))
    out = {}
    for kin in ("small", "large"):
        idx = [i for i, q in enumerate(prep) if q["kin"] == kin]
        if not idx:
            continue
        C, Hs, Ph, Gs = [], [], [], []
        for i in idx:
            q = prep[i]
            for H, ph, g in ((q["H"], q["phi"], q["g"]), (q["H"], q["phip"], onp.zeros(3)), (q["H"], 0.0, onp.zeros(3)),
                             (onp.zeros((3, 3)), q["phi"], q["g"]), (q["Hrot"], q["phi"], onp.zeros(3))):
                C.append(q["c"]); Hs.append(H); Ph.append(ph); Gs.append(g)
        ws, pot, tot, P0 = (onp.asarray(a) for a in fns(kin)(onp.array(C), onp.array(Hs), onp.array(Ph, float), onp.array(Gs)))
        for k, i in enumerate(idx):
            out[i] = (ws[5 * k:5 * k + 5], pot[5 * k], tot[5 * k], P0[5 * k + 3])
    traces = []
    for i, q in enumerate(prep):
        b, kin = q["b"], q["kin"]
        E, nu, Gc, l = q["c"]
        ws, pot, tot, P0 = out[i]
        wq, wp, w0, wrest, wrot = (float(x) for x in ws)
        u, g, phi = q["u"], q["g"], q["phi"]
        tol = RT * max(w0, u * 1e-3) + 1e-300
        cmp_ = "EQ" if abs(wq - wp) <= tol else ("LT" if wq < wp else "GT")
        ratio = "EQ" if abs(wq * b["wp"] - wp * b["wq"]) <= RT * max(w0, u * 1e-3) * max(b["wp"], b["wq"], 1) else "NE"
        pref = 3.0 * Gc / 8.0 * (phi / l + l * float(g @ g))
        rest = abs(wrest) <= 1e-14 * E and onp.abs(P0).max() <= 1e-12 * E
        obj = "NA"
        if kin == "large":
            obj = "EQ" if abs(wrot - wq) <= 1e-9 * max(w0, u * 1e-3) + 1e-13 * E else "NE"
        traces.append(dict(id=q["tid"], kin=kin, p=b["p"], q=b["q"], D=b["D"], V=b["V"], sg=b["sg"], n=b["n"], wp=b["wp"], wq=b["wq"],
                           cmp=cmp_, ratio=ratio,
                           pot="EQ" if abs(float(pot) - pref) <= 1e-12 * max(abs(pref), Gc / l * 1e-6) else "NE",
                           rest="EQ" if rest else "NE", obj=obj,
                           tot="EQ" if abs(float(tot) - (wq + float(pot))) <= 1e-12 * max(abs(float(tot)), 1e-300) + 1e-300 else "NE"))
    return traces


def main(tier, replay=None):
    common.setup_paths()
    rep = common.Reporter(PID, tier)
    rep.assumptions = ["extension beyond the listed properties: not registered in MANIFEST.json",
                       "energies compared to %g of the intact energy; strain energy unit mu*1e-8..1e-2 (small) / ..0.3 (large)" % RT]
    rng = random.Random(common.seed())
    traces, cases = [], {}
    if replay:
        c = json.load(open(replay))["case"]
        traces = run_cases([(c["beh"], c["kin"], c["seed"], 1)]); cases[1] = c
    else:
        des = tlc.run("PhaseFieldDamage.tla", "PhaseFieldDamage.cfg", workers=1, label="design")
        tlc.require_ok(des, rep, "design")
        rep.add_tlc(des)
        reps = 1 if tier == "quick" else 12
        items = []
        for b in des.payloads("BEH"):
            for kin in ("small", "large"):
                for _ in range(reps):
                    c = dict(beh=b, kin=kin, seed=rng.randrange(1 << 30))
                    tid = len(items) + 1
                    items.append((b, kin, c["seed"], tid)); cases[tid] = c
        traces = run_cases(items)
    for c in ("damage_never_stiffens", "degradation_is_quadratic", "potential_linear", "rest_is_stress_free", "energy_is_sum"):
        rep.count_clause(c, len(traces))
    rep.count_clause("objective_at_every_phase", sum(1 for t in traces if t["obj"] != "NA"))
    rep.sample(traces[len(traces) // 2])
    trace.validate("PhaseFieldDamageTrace.tla", "PhaseFieldDamageTrace.cfg", traces, rep,
                   on_fail=lambda tid, l, clause: rep.fail(clause, cases[tid]))
    return rep.finish(rule="every case of the PhaseFieldDamage lattice (N = 4) x both kinematics x seeded constants, directions, rotations",
                      extra={"distinct_nontrivial": len(traces)}, exhaustive=True)


if __name__ == "__main__":
    sys.exit(main(common.tier()))
