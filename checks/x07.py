"""X07 (extension, not a listed property) — optimism/Timer.py as a state machine (TimerRules.tla / Timer.tla).
TLC enumerates every word of start/stop/new/tick over three Timer objects (two share a name, one is unnamed) up to the
tier's depth and checks the accounting invariants on the design; each word is replayed into the REAL class under a
virtual clock (API style chosen at random: start()/stop() or the context-manager protocol) and the recorded
observations are validated by TimerTrace.tla."""
import json
import random
import sys
import types

from harness import common, tlc, trace

PID = "X07"
NAMES = {1: "a", 2: "a", 3: None}


def replay_word(word, rng, tid):
    import optimism.Timer as T
    clock = [0.0]
    logs = [0]
    saved_time = T.time
    T.time = types.SimpleNamespace(perf_counter=lambda: clock[0])
    T.Timer.timers.clear()

    def mk(i):
        return T.Timer(name=NAMES[i], logger=lambda msg: logs.__setitem__(0, logs[0] + 1))
    objs = {i: mk(i) for i in (1, 2, 3)}
    ev = []
    try:
        for a in word:
            op, i, d = a["op"], int(a["i"]), int(a["d"])
            ok, ret = True, -1
            try:
                if op == "tick":
                    clock[0] += d
                elif op == "new":
                    objs[i] = mk(i)
                elif op == "start":
                    if rng.random() < 0.5:
                        objs[i].start()
                    else:
                        objs[i].__enter__()
                elif op == "stop":
                    if rng.random() < 0.5:
                        r = objs[i].stop()
                        ret = int(round(r)) if abs(r - round(r)) < 1e-9 else -7
                    else:
                        t0 = objs[i]._start_time
                        objs[i].__exit__(None, None, None)
                        ret = int(round(clock[0] - t0))     # __exit__ returns None: elapsed is not observable there
            except T.TimerError:
                ok = False
            tot = {n: int(round(T.Timer.timers.get(n, 0))) for n in ("a", "b")}
            if any(abs(T.Timer.timers.get(n, 0) - tot[n]) > 1e-9 for n in ("a", "b")):
                tot["a"] = -7
            ev.append(dict(op=op, i=i, d=d, ok=ok, ret=ret, tot=tot, logs=logs[0],
                           running=[objs[k]._start_time is not None for k in (1, 2, 3)]))
    finally:
        T.time = saved_time
        T.Timer.timers.clear()
    return dict(id=tid, ev=ev)


def main(tier, replay=None):
    common.setup_paths()
    rep = common.Reporter(PID, tier)
    rep.assumptions = ["time.perf_counter replaced by an integer virtual clock inside optimism.Timer only",
                       "extension beyond the listed properties: not registered in MANIFEST.json"]
    rng = random.Random(common.seed())
    traces, cases = [], {}
    if replay:
        c = json.load(open(replay))["case"]
        traces.append(replay_word(c["w"], rng, 1)); cases[1] = c
    else:
        depth = 4 if tier == "quick" else 5
        cfg = common.scratch("x07") + "/Timer.cfg"
        open(cfg, "w").write(open(common.SPECS + "/Timer.cfg").read().replace("Depth = 5", "Depth = %d" % depth))
        des = tlc.run("Timer.tla", cfg, workers=1, label="design depth %d" % depth)
        tlc.require_ok(des, rep, "design")
        rep.add_tlc(des)
        words = [b["w"] for b in des.payloads("BEH")]
        if tier != "quick":
            cfg2 = common.scratch("x07") + "/TimerSim.cfg"
            open(cfg2, "w").write(open(common.SPECS + "/Timer.cfg").read().replace("Depth = 5", "Depth = 14"))
            sim = tlc.run("Timer.tla", cfg2, workers=1, simulate="num=4000", depth=15, seed=common.seed() + 1,
                          label="simulate depth 14")
            tlc.require_ok(sim, rep, "simulate")
            rep.add_tlc(sim)
            words += [b["w"] for b in sim.payloads("BEH")]
        for k, w in enumerate(words):
            traces.append(replay_word(w, rng, k + 1)); cases[k + 1] = dict(w=w)
    for c in ("refusal_iff_misuse", "stop_returns_elapsed", "table_accounting", "one_report_per_stop", "running_flag"):
        rep.count_clause(c, sum(len(t["ev"]) for t in traces))
    if traces:
        rep.sample(traces[len(traces) // 3])
    trace.validate("TimerTrace.tla", "TimerTrace.cfg", traces, rep,
                   on_fail=lambda tid, l, clause: rep.fail(clause, cases[tid]))
    return rep.finish(rule="every start/stop/new/tick word over three Timer objects up to the tier's depth (TLC, exhaustive) "
                           "replayed into the real class under a virtual clock",
                      extra={"words": len(traces)}, exhaustive=True)


if __name__ == "__main__":
    sys.exit(main(common.tier()))
