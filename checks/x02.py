"""X02 (extension, not a listed property) — MinimizeScalar.minimize_scalar: Armijo line searches make every iterate
a descent step, and the loop stops only on a small derivative or at the iteration cap (LineSearch.tla)."""
import json
import random
import sys

import numpy as onp

from harness import common, tlc, trace
from harness.proxies import Silence

PID = "X02"


def fam(x, a, b, c, d):
    import jax.numpy as np
    return a * x ** 4 + b * x ** 2 + c * x + d * np.cos(x)


def run_case(coef, x0, tol, K, tid):
    import jax
    from optimism import MinimizeScalar
    F = lambda x: fam(x, *coef)
    dF = jax.grad(F)
    xs = [x0]
    with Silence():
        for k in range(1, K + 1):
            s = MinimizeScalar.get_settings(tol=tol, max_iters=k)
            xs.append(float(MinimizeScalar.minimize_scalar(fam, x0, diffArgs=tuple(coef), nondiffArgs=tuple(), settings=s)))
    ev = []
    for k in range(1, len(xs)):
        f0, f1 = float(F(xs[k - 1])), float(F(xs[k]))
        conv = abs(float(dF(xs[k - 1]))) <= tol
        # a capped (20 cut-backs) line search near the minimiser moves by less than the objective's resolution
        same = abs(f1 - f0) <= 4 * 2.22e-16 * max(1.0, abs(f0))
        ev.append(dict(e="Iter", cmp="EQ" if same else ("LT" if f1 < f0 else "UP"), conv=bool(conv)))
    ev.append(dict(e="End", gSmall=bool(abs(float(dF(xs[-1]))) <= tol), hitCap=bool(xs[-1] != xs[-2]) if len(xs) > 1 else True))
    return dict(id=tid, ev=ev)


def main(tier, replay=None):
    common.setup_paths()
    rep = common.Reporter(PID, tier)
    rep.assumptions = ["extension beyond the listed properties: not registered in MANIFEST.json",
                       "iterates are recovered as the results for max_iters = 1, 2, ... (the iteration is deterministic)"]
    rng = random.Random(common.seed())
    des = tlc.run("LineSearch.tla", "LineSearch.cfg", label="design")
    tlc.require_ok(des, rep, "design")
    rep.add_tlc(des)
    traces, cases = [], {}
    n = 25 if tier == "quick" else 300
    for i in range(n):
        coef = [10 ** rng.uniform(-2, 0), rng.choice([-1, 1]) * 10 ** rng.uniform(-1, 1.5), rng.uniform(-2, 2), rng.uniform(0, 2)]
        x0 = rng.uniform(-3, 3)
        c = dict(coef=coef, x0=x0, tol=1e-8, K=8)
        if replay:
            c = json.load(open(replay))["case"]
        traces.append(run_case(c["coef"], c["x0"], c["tol"], c["K"], i + 1)); cases[i + 1] = c
        if replay:
            break
    for t in traces:
        for e in t["ev"]:
            rep.count_clause("descent" if e["e"] == "Iter" else "stops_honestly")
    rep.sample(traces[0])
    trace.validate("LineSearchTrace.tla", "LineSearchTrace.cfg", traces, rep,
                   on_fail=lambda tid, l, clause: rep.fail(clause, dict(cases[tid], event=l)))
    return rep.finish(rule="seeded quartic+cosine family (convex and double-well), 8 iterates each",
                      extra={"distinct_nontrivial": len(traces)})


if __name__ == "__main__":
    sys.exit(main(common.tier()))
