"""X15 (extension, not a listed property) — optimism.LU.LU, the dense LU preconditioner with a diagonal fallback used by
EquationSolver's least-squares driver (LURules.tla / LUPrecond.tla / LUPrecondTrace.tla).

TLC enumerates every word over the public methods (construct / update with a matrix that factorizes or one for which lu_factor
raises, solve, solve_transpose, dot, multiply_by_transpose) up to depth 5 with a construction first, checks the design
invariants and REFUTES `AlwaysInSync` (named deviation: after a failed update self.A is the new matrix, the factors the old ones).
Each word is replayed on the REAL class with seeded random matrices; for every observation the harness finds which handed-over
matrix explains the result (independent numpy solve / product); LUPrecondTrace.tla folds the word with the shared rules and
compares."""
import json
import random
import sys
import warnings

import numpy as onp

from harness import common, tlc, trace
from harness.proxies import Silence

PID = "X15"


def explain(res, cands):
    """number of the candidate that reproduces res (rel 1e-9, nan-aware); -2 if none or ambiguous between different values"""
    hits = []
    for k, v in cands:
        if v is None:
            continue
        if res.shape == v.shape and onp.allclose(res, v, rtol=1e-9, atol=1e-12, equal_nan=True):
            hits.append(k)
    return hits[0] if len(hits) == 1 else -2


def run_word(ops, rng, tid):
    from optimism import LU as LUmod
    r = onp.random.RandomState(rng.randrange(1 << 30))
    dim = rng.choice([2, 3, 4])
    mats, good, obj, got = [], [], None, []
    for op in ops:
        if op in ("Cg", "Cb", "Ug", "Ub"):
            A = r.uniform(-1, 1, (dim, dim)) + dim * onp.eye(dim) * r.choice([-1.0, 1.0])
            if op in ("Cb", "Ub"):
                i, j = (0, dim - 1) if rng.random() < 0.5 else (dim - 1, 0)      # off-diagonal non-finite entry
                A[i, j] = onp.nan if rng.random() < 0.5 else onp.inf
            mats.append(A); good.append(op in ("Cg", "Ug"))
            with Silence(), warnings.catch_warnings():
                warnings.simplefilter("ignore")
                if op in ("Cg", "Cb"):
                    obj = LUmod.LU(A.copy())
                else:
                    obj.update(A.copy())
            got.append(-1)
            continue
        b = r.uniform(-1, 1, dim)
        with Silence(), warnings.catch_warnings():
            warnings.simplefilter("ignore")
            if op == "S":
                res = onp.asarray(obj.solve(b.copy()))
                cands = [(0, b)] + [(k + 1, onp.linalg.solve(M, b)) for k, M in enumerate(mats) if good[k]]
            elif op == "T":
                res = onp.asarray(obj.solve_transpose(b.copy()))
                cands = [(0, b)] + [(k + 1, onp.linalg.solve(M.T, b)) for k, M in enumerate(mats) if good[k]]
            elif op == "D":
                res = onp.asarray(obj.dot(b.copy())) if rng.random() < 0.5 else onp.asarray(obj @ b.copy())
                cands = [(k + 1, M @ b) for k, M in enumerate(mats)]
            else:
                res = onp.asarray(obj.multiply_by_transpose(b.copy()))
                cands = [(k + 1, M.T @ b) for k, M in enumerate(mats)]
        got.append(explain(res, cands))
    return dict(id=tid, ops=list(ops), got=got)


def main(tier, replay=None):
    common.setup_paths()
    rep = common.Reporter(PID, tier)
    rep.assumptions = ["extension beyond the listed properties: not registered in MANIFEST.json",
                       "matrices that factorize are diagonally dominant random matrices (dimension 2-4); a 'bad' matrix has one "
                       "off-diagonal nan / inf (lu_factor raises ValueError); singular matrices (a warning, not an exception) are not "
                       "handed over",
                       "an observation is attributed to a handed-over matrix by an independent numpy solve / product (rtol 1e-9)"]
    rng = random.Random(common.seed())
    traces, cases = [], {}
    if replay:
        c = json.load(open(replay))["case"]
        traces.append(run_word(c["ops"], random.Random(c["seed"]), 1)); cases[1] = c
    else:
        des = tlc.run("LUPrecond.tla", "LUPrecond.cfg", workers=1, label="design")
        tlc.require_ok(des, rep, "design")
        rep.add_tlc(des)
        neg = tlc.run("LUPrecond.tla", "LUPrecondSync.cfg", workers=1, label="AlwaysInSync (must be refuted)", coverage=False)
        refuted = (not neg.ok) and "AlwaysInSync" in (neg.violated or [])
        rep.coverage["named_deviation_out_of_sync_reachable"] = bool(refuted)
        if not refuted:
            rep.machinery("LUPrecondSync.cfg: AlwaysInSync was not refuted (the named deviation is not reachable in the model)")
        if tier == "thorough":
            import subprocess
            r = subprocess.run([common.SPECS + "/apalache/run_lu.sh"], capture_output=True, text=True)
            rep.coverage["apalache"] = [l for l in r.stdout.splitlines() if l.startswith("APALACHE")]
            if r.returncode != 0:
                rep.machinery("apalache inductive check failed: %s" % r.stdout[-400:])
        words = [b["ops"] for b in des.payloads("BEH")]
        reps = 1 if tier == "quick" else 4
        tid = 0
        for w in words:
            for _ in range(reps):
                tid += 1
                s = rng.randrange(1 << 30)
                traces.append(run_word(w, random.Random(s), tid)); cases[tid] = dict(ops=w, seed=s)
        rep.coverage["words"] = len(words)
    rep.count_clause("solve_uses_installed_factors", sum(1 for t in traces for o in t["ops"] if o in ("S", "T")))
    rep.count_clause("product_uses_current_matrix", sum(1 for t in traces for o in t["ops"] if o in ("D", "M")))
    rep.coverage["out_of_sync_observed"] = sum(1 for t in traces if any(o == "Ub" for o in t["ops"]))
    rep.sample(traces[len(traces) // 2])
    trace.validate("LUPrecondTrace.tla", "LUPrecondTrace.cfg", traces, rep,
                   on_fail=lambda tid, l, clause: rep.fail(clause, cases[tid]))
    return rep.finish(rule="every word over the eight public operations up to depth 5 (a construction first) enumerated by TLC and "
                           "replayed on the real class", extra={"distinct_nontrivial": len(traces)}, exhaustive=True)


if __name__ == "__main__":
    sys.exit(main(common.tier()))
