"""C10 -- Stress and tangent from autodiff match the energy's true derivatives.

Design: specs/MaterialPoint.tla (clauses stress_matches_energy, tangent_matches_energy attached to every action that
leaves a state behind).  Binding: the histories TLC emits for MaterialPointGen_<kind>_<tier>.cfg (elastic, plastic:
Update/ReUpdate/Commit sequences, viscous: Load/Hold) plus seeded TLC random walks are executed on every real material
model; after each action the stress jax.grad(W) and the tangent action jax.jvp(jax.grad(W)) at (F, committed state,
dt) are compared with 6th-order central difference quotients of compute_energy_density itself along 4 directions
(general, in-plane block, symmetric, and the sum of two: mixed second derivative), with 6 step sizes; a quotient is
judged only where every stencil point lies on the same side of the yield switch (by the model's own state update) and
its two-step error estimate is small; MaterialPointTrace.tla judges the codes.  Shared machinery: checks/matpoint.py.
"""
import sys

from harness import common
from checks import matpoint as mp

PID = "C10"
ELASTIC = ["le_linear", "le_green_lagrange", "le_logarithmic", "nh_adagio", "nh_coupled", "gent", "pf_large", "pf_small"]


def main(tier, replay=None):
    quick = tier == "quick"
    if quick:
        j2 = ["j2_large_linear", "j2_large_voce_rate", "j2_large_power", "j2_small_voce", "j2_small_linear_rate",
              "j2_seth_hill_power"]
    else:
        j2 = ["j2_%s_%s%s" % (k, h, r) for k in ("large", "small", "seth_hill") for h in ("linear", "voce", "power")
              for r in ("", "_rate")]
    visco = ["visco_1", "visco_3"]
    targets = [(v, "deriv") for v in ELASTIC + j2 + visco]

    def evolved(b):
        """prefer walks that evaluate derivatives at evolved states (after a commit / a load or hold)"""
        return any(o["a"] in ("Commit", "Load", "Hold") for o in b)
    plan = mp.shares(targets, n_sim=60 if quick else 600, cap_ex={"elastic": 60, "plastic": 60, "viscous": 60} if quick else None,
                     prefer=evolved)
    return mp.run_check(PID, tier, replay, plan, ["elastic", "plastic", "viscous"],
                        {"elastic": 300 if quick else 1500, "plastic": 600 if quick else 4000, "viscous": 400 if quick else 2500},
                        rule="load histories = action sequences of MaterialPointGen_<kind>_<tier>.cfg (each to one model, round "
                             "robin) + seeded TLC random walks per model; after every action the library's stress and tangent "
                             "action are compared with difference quotients of the energy density along 4 directions; distinct = "
                             "distinct (history, model, seed) executed on the real model")


if __name__ == "__main__":
    sys.exit(main(common.tier()))
