"""X13 (extension, not a listed property) — ReadExodusMesh.read_exodus_mesh_element_properties (ExodusProps.tla): the file
stores its element variables in its own order, the caller asks for a sequence of names; column j of the result must hold
the values of the j-th requested name, an unknown name raises KeyError, a multi-block file ValueError.  TLC enumerates file
orders x request sequences x block counts (516 cases); each is written as a real Exodus file (netCDF4) with distinct
integer-valued variables and read back by the REAL function; ExodusPropsTrace.tla judges."""
import json
import os
import random
import sys

import numpy as onp

from harness import common, tlc, trace
from harness.proxies import Silence

PID = "X13"


def write_file(path, order, nblocks, rng):
    import netCDF4
    nel = [rng.randrange(2, 6) for _ in range(nblocks)]
    ds = netCDF4.Dataset(path, "w", format="NETCDF3_64BIT_OFFSET")
    vals = {}
    try:
        ds.createDimension("len_name", 33)
        ds.createDimension("time_step", 1)
        ds.createDimension("num_el_blk", nblocks)
        ds.createDimension("num_elem_var", len(order))
        v = ds.createVariable("eb_names", "S1", ("num_el_blk", "len_name"))
        for b in range(nblocks):
            nm = "block_%d" % (b + 1)
            v[b, :len(nm)] = onp.array([ch.encode("ascii") for ch in nm], dtype="S1")
        v = ds.createVariable("name_elem_var", "S1", ("num_elem_var", "len_name"))
        for i, nm in enumerate(order):
            v[i, :len(nm)] = onp.array([ch.encode("ascii") for ch in nm], dtype="S1")
        for b in range(nblocks):
            ds.createDimension("num_el_in_blk%d" % (b + 1), nel[b])
            for i, nm in enumerate(order):
                arr = onp.array([[100.0 * (i + 1) + 10.0 * (b + 1) + e for e in range(nel[b])]])
                ds.createVariable("vals_elem_var%deb%d" % (i + 1, b + 1), "f8", ("time_step", "num_el_in_blk%d" % (b + 1)))[:] = arr
                vals[(i + 1, b + 1)] = arr[0]
    finally:
        ds.close()
    return nel, vals


def run_case(b, rng, tid, d):
    from optimism import ReadExodusMesh
    order = [b["order"][str(i)] if isinstance(b["order"], dict) else b["order"][i - 1] for i in (1, 2, 3)]
    req = list(b["req"])
    path = os.path.join(d, "c%d.exo" % tid)
    nel, vals = write_file(path, order, int(b["nblocks"]), rng)
    got, shape_ok, src = "other", False, []
    try:
        with Silence():
            out = onp.asarray(ReadExodusMesh.read_exodus_mesh_element_properties(path, req))
        got = "ok"
        shape_ok = bool(out.shape == (nel[0], len(req)))
        if shape_ok:
            for j in range(len(req)):
                hit = [i for i in (1, 2, 3) if onp.array_equal(out[:, j], vals[(i, 1)])]
                src.append(hit[0] if hit else 0)
    except KeyError:
        got = "KeyError"
    except ValueError:
        got = "ValueError"
    except Exception as ex:  # noqa
        got = "other"
    os.remove(path)
    cols = b["cols"]
    cols = [int(cols[str(i)]) for i in range(1, len(cols) + 1)] if isinstance(cols, dict) else [int(c) for c in cols]
    return dict(id=tid, outcome=b["outcome"], cols=cols, got=got, shape_ok=shape_ok, src=src if got == "ok" else [])


def main(tier, replay=None):
    common.setup_paths()
    rep = common.Reporter(PID, tier)
    rep.assumptions = ["extension beyond the listed properties: not registered in MANIFEST.json",
                       "one time step per element variable (as in the upstream sample file); values are distinct integers per (variable, block, element)"]
    rng = random.Random(common.seed())
    d = common.scratch("x13")
    traces, cases = [], {}
    if replay:
        c = json.load(open(replay))["case"]
        traces.append(run_case(c, rng, 1, d)); cases[1] = c
    else:
        des = tlc.run("ExodusProps.tla", "ExodusProps.cfg", workers=1, label="design")
        tlc.require_ok(des, rep, "design")
        rep.add_tlc(des)
        for i, b in enumerate(des.payloads("BEH")):
            traces.append(run_case(b, rng, i + 1, d)); cases[i + 1] = b
    rep.count_clause("outcome_kind", len(traces))
    rep.count_clause("columns_follow_request", sum(1 for t in traces if t["outcome"] == "ok"))
    rep.coverage["outcomes"] = {k: sum(1 for t in traces if t["outcome"] == k) for k in ("ok", "KeyError", "ValueError")}
    rep.sample(traces[len(traces) // 2])
    trace.validate("ExodusPropsTrace.tla", "ExodusPropsTrace.cfg", traces, rep,
                   on_fail=lambda tid, l, clause: rep.fail(clause, cases[tid]))
    return rep.finish(rule="every (file variable order, request sequence, block count) enumerated by TLC, written as a real Exodus file",
                      extra={"distinct_nontrivial": len(traces)}, exhaustive=True)


if __name__ == "__main__":
    sys.exit(main(common.tier()))
