"""Shared driver for C01 / C05 (and C19): runs the REAL trust-region minimizers on a parameterised smooth
objective family through the recording / value-oracle proxy and produces abstract traces for
TrustRegionTrace.tla."""
import math

import numpy as onp

from harness import common
from harness.proxies import ObjectiveProxy, Silence, _key

EPS = 2.220446049250313e-16
_OBJ = {}


def family(x, p):
    """f(x;p) = 1/2 x.A x - b.x + c3 sum x^3 + c4 sum x^4 + s sum sin(w x);  b = p[0], (A,c3,c4,s,w) = p[2]."""
    import jax.numpy as np
    b = p[0]
    A, c3, c4, s, w = p[2]
    return 0.5 * x @ (A @ x) - b @ x + c3 * np.sum(x ** 3) + c4 * np.sum(x ** 4) + s * np.sum(np.sin(w * x))


def get_objective(n, precond="exact"):
    """One real optimism.Objective per (dimension, preconditioner kind); parameters go through .p so one jit
    compilation serves the whole family."""
    from optimism import Objective
    import jax.numpy as np
    from scipy.sparse import identity
    key = (n, precond)
    if key not in _OBJ:
        p0 = make_params(dict(A=onp.eye(n), b=onp.zeros(n), c3=0.0, c4=0.0, s=0.0, w=onp.ones(n)))
        ps = None
        if precond == "identity":
            ps = Objective.PrecondStrategy(lambda x, p: identity(n, format="csc"))
        with Silence():
            _OBJ[key] = Objective.Objective(family, np.zeros(n), p0, ps)
    return _OBJ[key]


def make_params(prob):
    from optimism import Objective
    import jax.numpy as np
    return Objective.Params(bc_data=np.array(prob["b"], dtype=float),
                            design_data=(np.array(prob["A"], dtype=float), float(prob["c3"]), float(prob["c4"]),
                                         float(prob["s"]), np.array(prob["w"], dtype=float)))


def random_problem(rng, n, kind):
    """kind: convex | indef | singular | scaled_up | scaled_down | wiggly"""
    Q, _ = onp.linalg.qr(onp.array([[rng.gauss(0, 1) for _ in range(n)] for _ in range(n)]))
    if kind == "convex":
        ev = [10 ** rng.uniform(0, 3) for _ in range(n)]
    elif kind == "indef":
        ev = [rng.choice([-1, 1]) * 10 ** rng.uniform(-1, 2) for _ in range(n)]
        ev[0] = -abs(ev[0])
    elif kind == "singular":
        ev = [0.0] + [10 ** rng.uniform(0, 2) for _ in range(n - 1)]
    else:
        ev = [10 ** rng.uniform(0, 2) for _ in range(n)]
    A = Q @ onp.diag(ev) @ Q.T
    A = 0.5 * (A + A.T)
    b = onp.array([rng.gauss(0, 1) for _ in range(n)])
    c4 = 0.0 if kind == "convex" and rng.random() < 0.5 else 10 ** rng.uniform(-2, 0)
    c3 = 0.0 if kind in ("convex", "singular") else rng.uniform(-0.5, 0.5)
    s = rng.uniform(0.2, 2.0) if kind == "wiggly" else 0.0
    w = onp.array([rng.uniform(0.5, 3) for _ in range(n)])
    scale = {"scaled_up": 1e6, "scaled_down": 1e-6}.get(kind, 1.0)
    prob = dict(A=(A * scale).tolist(), b=(b * scale).tolist(), c3=c3 * scale, c4=c4 * scale, s=s * scale,
                w=w.tolist(), kind=kind, n=n)
    return prob


WITNESS_F1 = dict(A=[[1.0]], b=[-1.0], c3=-4.0, c4=-3.0, s=0.0, w=[1.0], kind="witness_f1", n=1)


def dense_minimizer(prob):
    """Independent reference for strictly convex members: dense Newton to 1e-13."""
    import jax
    import jax.numpy as np
    p = make_params(prob)
    f = lambda x: family(x, p)
    g = jax.grad(f)
    H = jax.hessian(f)
    x = np.zeros(prob["n"])
    for _ in range(100):
        gx = g(x)
        if float(np.linalg.norm(gx)) < 1e-13 * (1 + float(np.linalg.norm(np.array(prob["b"])))):
            break
        x = x - np.linalg.solve(H(x), gx)
    return onp.array(x)


def rho_class(info, settings):
    v, cur, model = info["v"], info["cur"], info["model"]
    real_improve = -(v - cur)
    model_improve = -model
    with onp.errstate(all="ignore"):
        rho = onp.float64(real_improve) / onp.float64(model_improve)
        if model > 0:
            rho = onp.float64(real_improve) / -onp.float64(model_improve)
    if math.isnan(rho):
        return "nan"
    if rho < 0:
        return "neg"
    if rho == 0:
        return "zero"
    if rho < settings.eta1:
        return "pos_lt_eta1"
    if rho < settings.eta2:
        return "eta1_eta2"
    if rho <= settings.eta3:
        return "eta2_eta3"
    return "gt_eta3"


def run(kind, prob, x0, settings, precond="exact", script=None, bounds=None, precond_point=None, tid=0,
        convex_ref=None, prob_old=None, warm=False, upd=True):
    """kind: 'tr' (EquationSolver.trust_region_minimize) or 'spg' (bound-constrained).  Returns trace dict."""
    import jax.numpy as np
    from optimism import EquationSolver, TrustRegionSPG
    n = prob["n"]
    real = get_objective(n, "identity" if precond == "identity" else "exact")
    p_target = make_params(prob)
    # kind 'nes' (nonlinear_equation_solve): the objective still carries the parameters of the previous load step
    real.p = make_params(prob_old) if (kind == "nes" and prob_old is not None) else p_target
    x0 = np.array(x0, dtype=float)
    with Silence():
        real.update_precond(np.array(precond_point, dtype=float) if (precond == "stale" and precond_point is not None) else x0)
    incr = bool(settings.use_incremental_objective)
    proxy = ObjectiveProxy(real, settings=settings, script=None if incr else script)
    lb = ub = None
    if bounds is not None:
        lb, ub = onp.array(bounds)[:, 0], onp.array(bounds)[:, 1]

    def feas(x):
        if bounds is None:
            return True
        xa = onp.asarray(x)
        return bool(onp.all(xa >= lb) and onp.all(xa <= ub))

    def feas_class(x):
        """none | ulp (outside by at most 4 ulp of the bound: accumulated rounding of x + z) | gross"""
        if bounds is None or feas(x):
            return "none"
        xa = onp.asarray(x)
        with onp.errstate(invalid="ignore"):
            below = onp.where(onp.isfinite(lb), lb - xa, -onp.inf)
            above = onp.where(onp.isfinite(ub), xa - ub, -onp.inf)
            scale = onp.maximum(1e-300, onp.maximum(onp.abs(onp.where(onp.isfinite(lb), lb, 0.0)), onp.abs(onp.where(onp.isfinite(ub), ub, 0.0))))
        worst = float(onp.max(onp.maximum(below, above) / scale))
        return "ulp" if worst <= 4 * EPS else "gross"

    def measure(x):
        g = real.grad_x(x, p_target)          # always under the parameters the solve was asked for
        if bounds is None:
            return g
        return TrustRegionSPG.project(x - g, np.array(bounds)) - x

    def cb(x, obj):
        proxy._log.append(("report", _key(x), onp.array(x)))

    raised = None
    xr, flag = None, None
    with Silence():
        try:
            if kind == "tr":
                xr, flag = EquationSolver.trust_region_minimize(proxy, x0, settings, callback=cb)
            elif kind == "nes":
                xr, flag = EquationSolver.nonlinear_equation_solve(proxy, x0, p_target, settings, callback=cb,
                                                                   useWarmStart=warm, updatePrecond=upd)
            elif kind == "sub":
                from optimism import EquationSolverSubspace
                xr = EquationSolverSubspace.trust_region_subspace_minimize(proxy, x0, settings, callback=cb)
                flag = False          # this driver returns the point only (no success flag)
                if xr is None:
                    raise RuntimeError("returned None (iteration cap reached without a return statement)")
            else:
                xr, flag = TrustRegionSPG.bound_constrained_trust_region_minimize(proxy, x0, np.array(bounds), settings, callback=cb)
        except Exception as ex:  # noqa
            raised = repr(ex)

    def val(k, x):
        if k in proxy._memo:
            return float(proxy._memo[k])
        return float(real.value(x))      # incremental mode: value never requested for this point

    tol = settings.tol
    ev = [dict(e="Start", fin=bool(onp.all(onp.isfinite(onp.asarray(x0)))), feas=feas(x0))]
    prev_k, prev_v = _key(x0), val(_key(x0), x0)
    for item in proxy._log:                     # the solver's own start point (after an optional warm start)
        if item[0] == "start_value":
            prev_k, prev_v = item[1], float(proxy._memo[item[1]])
            break
    last_k = prev_k
    gcur = float(np.linalg.norm(measure(x0)))
    for item in proxy._log:
        if item[0] == "trial" and not incr:
            info = item[2]
            my = measure(np.array(info["x"]))
            myn = float(np.linalg.norm(my))
            gxc = float(np.linalg.norm(measure(np.array(info["xc"]))))
            conv = bool((my @ my) < tol ** 2) if kind in ("tr", "sub", "nes") else bool(myn < tol)
            ev.append(dict(e="Trial", rho=rho_class(info, settings), resNW=bool(myn <= gxc), conv=conv,
                           code=info["code"] or "", modelPos=bool(info["model"] > 0)))
        elif item[0] == "update_precond":
            ev.append(dict(e="Refresh"))
        elif item[0] == "report":
            k, x = item[1], item[2]
            v = val(k, x)
            if not math.isfinite(v):
                cmp_ = "NAN"
            elif v <= prev_v:
                cmp_ = "LE"
            elif v - prev_v <= 64 * EPS * max(1.0, abs(prev_v)):
                cmp_ = "UPTINY"
            else:
                cmp_ = "UP"
            ev.append(dict(e="Report", cmp=cmp_, fin=bool(onp.all(onp.isfinite(x)) and (math.isfinite(v) or script is not None)),
                           same=(k == prev_k), feas=feas(x), feasClass=feas_class(x)))
            prev_k, prev_v, last_k = k, v, k
    if raised is None:
        gs = float(np.linalg.norm(measure(xr)))
        agree = "NA"
        if convex_ref is not None:
            agree = "EQ" if float(onp.linalg.norm(onp.asarray(xr) - convex_ref)) <= 1e-6 * (1 + float(onp.linalg.norm(convex_ref))) else "NE"
        ev.append(dict(e="Return", flag=bool(flag), last=(_key(xr) == last_k), gSmall=bool(gs < tol * (1 + 1e-12)),
                       agree=agree, feas=feas(xr), feasClass=feas_class(xr)))
    else:
        ev.append(dict(e="Raised", what=raised[:200], cauchy=bool(kind == "spg" and "No acceptable Cauchy point" in raised)))
    return dict(id=tid, incr=incr, convex=convex_ref is not None, bounded=bounds is not None,
                scripted=script is not None, ev=ev,
                n_scripted=proxy._n_scripted)
